package xpath

// Injected into /repo by `go test -overlay` (never written there). Witness
// expressions for the defects of the pinned tree; each sub-test states the
// XPath 1.0 answer. Used to confirm fix: commits and as replay support.

import (
	"fmt"
	"math"
	"os/exec"
	"os"
	"strings"
	"testing"
)

// wdoc parses a tiny XML subset: <n a="v">text<m/></n>, <!--c-->.
func wdoc(s string) *TNode {
	root := createNode("", RootNode)
	cur := root
	i := 0
	for i < len(s) {
		if strings.HasPrefix(s[i:], "<!--") {
			j := strings.Index(s[i:], "-->")
			cur.createChildNode(s[i+4:i+j], CommentNode)
			i += j + 3
		} else if strings.HasPrefix(s[i:], "</") {
			j := strings.IndexByte(s[i:], '>')
			cur = cur.Parent
			i += j + 1
		} else if s[i] == '<' {
			j := strings.IndexByte(s[i:], '>')
			tag := s[i+1 : i+j]
			selfclose := strings.HasSuffix(tag, "/")
			tag = strings.TrimSuffix(tag, "/")
			parts := strings.Fields(tag)
			n := cur.createChildNode(parts[0], ElementNode)
			for _, a := range parts[1:] {
				kv := strings.SplitN(a, "=", 2)
				n.addAttribute(kv[0], strings.Trim(kv[1], `"`))
			}
			if !selfclose {
				cur = n
			}
			i += j + 1
		} else {
			j := strings.IndexByte(s[i:], '<')
			if j < 0 {
				j = len(s) - i
			}
			cur.createChildNode(s[i:i+j], TextNode)
			i += j
		}
	}
	return root
}

func wsel(t *testing.T, root *TNode, at string, expr string) (out []string, err error) {
	defer func() {
		if e := recover(); e != nil {
			err = fmt.Errorf("PANIC: %v", e)
		}
	}()
	e, cerr := Compile(expr)
	if cerr != nil {
		return nil, cerr
	}
	start := root
	if at != "" {
		start = wfind(root, at)
	}
	nav := &TNodeNavigator{curr: start, root: root, attr: -1}
	it := e.Select(nav)
	for it.MoveNext() {
		out = append(out, wpath(it.Current().(*TNodeNavigator)))
	}
	return
}

func wfind(n *TNode, path string) *TNode {
	// path like "1.2" = 2nd child of 1st child
	for _, p := range strings.Split(path, ".") {
		var k int
		fmt.Sscan(p, &k)
		c := n.FirstChild
		for ; k > 1; k-- {
			c = c.NextSibling
		}
		n = c
	}
	return n
}

func wpath(n *TNodeNavigator) string {
	var parts []string
	c := n.curr
	for c.Parent != nil {
		k := 1
		for p := c.PrevSibling; p != nil; p = p.PrevSibling {
			k++
		}
		parts = append([]string{fmt.Sprint(k)}, parts...)
		c = c.Parent
	}
	s := strings.Join(parts, ".")
	if n.attr != -1 {
		s += "@" + n.curr.Attr[n.attr].Key
	}
	return s
}

func weval(root *TNode, at string, expr string) (v interface{}, err error) {
	defer func() {
		if e := recover(); e != nil {
			err = fmt.Errorf("PANIC: %v", e)
		}
	}()
	e, cerr := Compile(expr)
	if cerr != nil {
		return nil, cerr
	}
	start := root
	if at != "" {
		start = wfind(root, at)
	}
	return e.Evaluate(&TNodeNavigator{curr: start, root: root, attr: -1}), nil
}

const d1 = `<r><a><b/><c><b/></c></a><a><b/></a><d/><b/></r>`

func wantSel(t *testing.T, doc, at, expr string, want ...string) {
	t.Helper()
	got, err := wsel(t, wdoc(doc), at, expr)
	if err != nil {
		t.Errorf("%s: error %v", expr, err)
		return
	}
	// compare as sets
	gs := map[string]bool{}
	for _, g := range got {
		gs[g] = true
	}
	ws := map[string]bool{}
	for _, w := range want {
		ws[w] = true
	}
	if len(gs) != len(ws) {
		t.Errorf("%s on %s: got %v want %v", expr, doc, got, want)
		return
	}
	for w := range ws {
		if !gs[w] {
			t.Errorf("%s on %s: got %v want %v", expr, doc, got, want)
			return
		}
	}
}

func wantEval(t *testing.T, doc, at, expr string, want interface{}) {
	t.Helper()
	got, err := weval(wdoc(doc), at, expr)
	if err != nil {
		t.Errorf("%s: error %v", expr, err)
		return
	}
	if f, ok := want.(float64); ok && math.IsNaN(f) {
		if g, ok := got.(float64); !ok || !math.IsNaN(g) {
			t.Errorf("%s: got %v want NaN", expr, got)
		}
		return
	}
	if got != want {
		t.Errorf("%s on %s: got %#v want %#v", expr, doc, got, want)
	}
}

func TestW_substring(t *testing.T) {
	wantEval(t, d1, "", `substring('12345',3,10)`, "345")
	wantEval(t, d1, "", `substring('12345',0,3)`, "12")
	wantEval(t, d1, "", `substring('12345',-1,4)`, "12")
	wantEval(t, d1, "", `substring('12345',1.5,2.6)`, "234")
	wantEval(t, d1, "", `substring('12345',2)`, "2345")
	wantEval(t, d1, "", `substring('12345',4,1)`, "4")
	wantEval(t, d1, "", `substring('12345',5,1)`, "5")
	wantEval(t, d1, "", `substring('12345',6,1)`, "")
	wantEval(t, d1, "", `substring('12345',0)`, "12345")
	wantEval(t, d1, "", `substring('12345',-2,3)`, "")
	wantEval(t, d1, "", `substring('12345',-2,4)`, "1")
}

func TestW_cmpNaN(t *testing.T) {
	wantEval(t, `<r><b>x</b></r>`, "", `//b > 10`, false)
	wantEval(t, `<r><b>x</b><b>11</b></r>`, "", `//b > 10`, true)
	wantEval(t, `<r><b>x</b></r>`, "", `10 < //b`, false)
	wantEval(t, d1, "", `1 = 'a'`, false)
	wantEval(t, d1, "", `'a' = 1`, false)
	wantEval(t, d1, "", `1 != 'a'`, true)
	wantEval(t, d1, "", `'1' = 1`, true)
}

func TestW_boolNaN(t *testing.T) {
	wantEval(t, d1, "", `boolean(number('x'))`, false)
	wantEval(t, d1, "", `boolean(0)`, false)
	wantEval(t, d1, "", `boolean(2)`, true)
}

func TestW_mod(t *testing.T) {
	wantEval(t, d1, "", `1 mod 0`, math.NaN())
	wantEval(t, d1, "", `5 mod 2`, float64(1))
	wantEval(t, d1, "", `7 mod 7`, float64(0))
}

func TestW_boolcmp(t *testing.T) {
	wantEval(t, d1, "", `true() = 1`, true)
	wantEval(t, d1, "", `true() = 0`, false)
	wantEval(t, d1, "", `true() = true()`, true)
	wantEval(t, d1, "", `true() != true()`, false)
	wantEval(t, d1, "", `false() = false()`, true)
	wantEval(t, d1, "", `true() = 'a'`, true)
	wantEval(t, d1, "", `'' = false()`, true)
	wantEval(t, d1, "", `//b = true()`, true)
	wantEval(t, d1, "", `//zz = true()`, false)
	wantEval(t, d1, "", `true() > 0`, true)
	wantEval(t, d1, "", `true() > false()`, true)
}

func TestW_nilquery(t *testing.T) {
	if _, err := Compile(`$x/a`); err == nil {
		t.Errorf("$x/a compiled")
	}
	if _, err := Compile(`namespace::x`); err == nil {
		t.Errorf("namespace::x compiled")
	}
	if _, err := Compile(`a[$x]`); err == nil {
		t.Errorf("a[$x] compiled")
	}
	wantEval(t, `<r>hi</r>`, "1", `string()`, "hi")
	wantEval(t, `<r>12</r>`, "1", `number()`, float64(12))
	wantEval(t, `<r>12</r>`, "1", `boolean()`, true)
}

func TestW_evalPure(t *testing.T) {
	doc := wdoc(d1)
	e := MustCompile(`ancestor::a = ''`)
	nav := func() NodeNavigator { return &TNodeNavigator{curr: wfind(doc, "1.1.1"), root: doc, attr: -1} }
	v1 := e.Evaluate(nav())
	v2 := e.Evaluate(nav())
	if v1 != v2 || v1 != true {
		t.Errorf("Evaluate twice: %v then %v", v1, v2)
	}
}

func TestW_reset(t *testing.T) {
	wantSel(t, d1, "", `//b[ancestor::a]`, "1.1.1", "1.1.2.1", "1.2.1")
	wantSel(t, d1, "", `//b[following::d]`, "1.1.1", "1.1.2.1", "1.2.1")
	wantSel(t, d1, "", `//b[preceding::b]`, "1.1.2.1", "1.2.1", "1.4")
	wantSel(t, d1, "", `//b[ancestor::a/c]`, "1.1.1", "1.1.2.1")
	// descendantOverDescendant level, merge iterator, filter positmap
	wantSel(t, `<r><x><a><q><b/></q><b/></a></x><x><a><b/></a></x><x/></r>`, "", `//x[descendant::a/descendant::b]`, "1.1", "1.2")
	wantSel(t, `<r><p><a x="1"/><a x="2"/></p><p><a x="3"/></p><p><a/></p></r>`, "", `//p[a[@x][1]]`, "1.1", "1.2")
	wantSel(t, `<r><p><s><a/><a/></s><s><a/></s></p><p><s><a/></s></p></r>`, "", `//p[s/a[1]]`, "1.1", "1.2")
}

func TestW_shortcut(t *testing.T) {
	wantSel(t, d1, "", `descendant-or-self::c/b`, "1.1.2.1")
	wantSel(t, d1, "", `//b`, "1.1.1", "1.1.2.1", "1.2.1", "1.4")
	wantSel(t, `<r><b/><x><b/></x></r>`, "", `//b/descendant::b/descendant-or-self::b`)
	wantSel(t, `<r><b><b><b/></b></b></r>`, "", `//b/descendant::b/descendant-or-self::b`, "1.1.1", "1.1.1.1")
}

func TestW_union(t *testing.T) {
	wantSel(t, `<r><a><a/></a><b/><a-1><a/></a-1></r>`, "", `//a | //a-1`, "1.1", "1.1.1", "1.3", "1.3.1")
}

func TestW_cursor(t *testing.T) {
	wantEval(t, `<r><a x="1">q</a><b>q</b></r>`, "1", `a = b`, true)
	wantEval(t, `<r><a x="1">q</a><b>q</b></r>`, "1", `a[@x] = b`, true)
	wantEval(t, `<r><a x="1">q</a><b>q</b></r>`, "1", `count(a[@x]) + count(b)`, float64(2))
	wantEval(t, `<r><a x="1">q</a><b>q</b></r>`, "1", `concat(a[@x], b)`, "qq")
	wantEval(t, `<r><a><c/></a><b>q</b></r>`, "1", `count(a/c[1]) + count(b)`, float64(2))
	wantEval(t, `<r><a><c/></a><b>q</b><z/></r>`, "1", `count(a/following::z) + count(b)`, float64(2))
	wantEval(t, `<r><z/><a><c/></a><b>q</b></r>`, "1", `count(b/preceding::z) + count(b)`, float64(2))
}

func TestW_stringJoinRace(t *testing.T) {
	// sequential observable: none; covered by -race in TestW_concurrent
}

func TestW_deep(t *testing.T) {
	if os.Getenv("W_DEEP_CHILD") == "1" {
		n := 3000000
		s := "a/" + strings.Repeat("(", n) + "b" + strings.Repeat(")", n)
		_, err := Compile(s)
		if err == nil {
			fmt.Println("compiled")
		} else {
			fmt.Println("rejected")
		}
		return
	}
	cmd := exec.Command(os.Args[0], "-test.run", "TestW_deep$")
	cmd.Env = append(os.Environ(), "W_DEEP_CHILD=1")
	out, err := cmd.CombinedOutput()
	if err != nil {
		s := string(out)
		if len(s) > 300 {
			s = s[:300]
		}
		t.Errorf("deep nesting crashed the process: %v\n%s", err, s)
	}
}

func TestW_numberBool(t *testing.T) {
	wantEval(t, d1, "", `number(true())`, float64(1))
	wantEval(t, d1, "", `number(false())`, float64(0))
	wantEval(t, d1, "", `true() + 1`, float64(2))
}

func TestW_numberToString(t *testing.T) {
	wantEval(t, d1, "", `string(0.00001)`, "0.00001")
	wantEval(t, d1, "", `string(1 div 3 div 100000)`, "0.0000033333333333333333")
	wantEval(t, d1, "", `string(999999)`, "999999")
	wantEval(t, d1, "", `string(0.5)`, "0.5")
	wantEval(t, d1, "", `string(-0.0001)`, "-0.0001")
}

// Known finding (C08, not repaired): the lexical space of number() is that of
// strconv.ParseFloat, not the XPath Number production. This test documents the
// divergence; it FAILS on the current tree by design and is not part of any check.
func TestKnown_numberLexical(t *testing.T) {
	wantEval(t, d1, "", `number(' 12 ')`, float64(12))
	wantEval(t, d1, "", `number('1e3')`, math.NaN())
	wantEval(t, d1, "", `number('inf')`, math.NaN())
	wantEval(t, d1, "", `number('0x10')`, math.NaN())
}

func TestW_substringRoundHalf(t *testing.T) {
	// XPath round() takes a tie towards positive infinity: round(-2.5) = -2
	wantEval(t, d1, "", `substring('12345', -2.5, 5)`, "12")
	wantEval(t, d1, "", `substring('12345', -0.5, 2)`, "1")
	wantEval(t, d1, "", `substring('12345', 1.5, 2.6)`, "234")
	wantEval(t, d1, "", `substring('12345', 0, 3)`, "12")
	wantEval(t, d1, "", `substring('12345', 2, -0.5)`, "")
	wantEval(t, d1, "", `substring('12345', 2.5)`, "345")
}

func TestW_attributeOfAttribute(t *testing.T) {
	// the attribute (and child, descendant) axis of an attribute node is empty
	wantSel(t, `<r a="1" b="2" c="3"><x/></r>`, "", `/r/@a/@*`)
	wantSel(t, `<r a="1" b="2" c="3"><x/></r>`, "", `/r/@b/attribute::c`)
	wantEval(t, `<r a="1" b="2" c="3"><x/></r>`, "", `count(/r/@*/@*)`, float64(0))
	wantEval(t, `<r a="1" b="2" c="3"><x/></r>`, "", `count(/r/@a/node())`, float64(0))
}

func TestW_followingOfAttribute(t *testing.T) {
	// following:: of an attribute node: everything after it in document order, i.e. also the
	// descendants of its owner element
	doc := `<r><a x="1"><b><g/></b><c/></a><d/></r>`
	got, err := wsel(t, wdoc(doc), "", `/r/a/@x/following::*`)
	if err != nil || len(got) != 4 {
		t.Errorf("following::* of @x: got %v (%v), want the 4 elements b g c d", got, err)
	}
	got, err = wsel(t, wdoc(doc), "", `/r/a/@x/following::g`)
	if err != nil || len(got) != 1 {
		t.Errorf("following::g of @x: got %v (%v), want 1 node", got, err)
	}
	got, err = wsel(t, wdoc(doc), "", `/r/a/b/following::*`)
	if err != nil || len(got) != 2 {
		t.Errorf("following::* of b: got %v (%v), want c d", got, err)
	}
}
