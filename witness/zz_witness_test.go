package xpath

// Injected into /repo by `go test -overlay` (never written there). Witness
// expressions for the defects of the pinned tree; each sub-test states the
// XPath 1.0 answer. Used to confirm fix: commits and as replay support.

import (
	"sync"
	"regexp"
	"sort"
	"strconv"
	"fmt"
	"time"
	"math"
	"os/exec"
	"os"
	"strings"
	"testing"
)

// wdoc parses a tiny XML subset: <n a="v">text<m/></n>, <!--c-->.
func wdoc(s string) *TNode {
	root := createNode("", RootNode)
	cur := root
	i := 0
	for i < len(s) {
		if strings.HasPrefix(s[i:], "<!--") {
			j := strings.Index(s[i:], "-->")
			cur.createChildNode(s[i+4:i+j], CommentNode)
			i += j + 3
		} else if strings.HasPrefix(s[i:], "</") {
			j := strings.IndexByte(s[i:], '>')
			cur = cur.Parent
			i += j + 1
		} else if s[i] == '<' {
			j := strings.IndexByte(s[i:], '>')
			tag := s[i+1 : i+j]
			selfclose := strings.HasSuffix(tag, "/")
			tag = strings.TrimSuffix(tag, "/")
			parts := strings.Fields(tag)
			n := cur.createChildNode(parts[0], ElementNode)
			for _, a := range parts[1:] {
				kv := strings.SplitN(a, "=", 2)
				n.addAttribute(kv[0], strings.Trim(kv[1], `"`))
			}
			if !selfclose {
				cur = n
			}
			i += j + 1
		} else {
			j := strings.IndexByte(s[i:], '<')
			if j < 0 {
				j = len(s) - i
			}
			cur.createChildNode(s[i:i+j], TextNode)
			i += j
		}
	}
	return root
}

func wsel(t *testing.T, root *TNode, at string, expr string) (out []string, err error) {
	defer func() {
		if e := recover(); e != nil {
			err = fmt.Errorf("PANIC: %v", e)
		}
	}()
	e, cerr := Compile(expr)
	if cerr != nil {
		return nil, cerr
	}
	start := root
	if at != "" {
		start = wfind(root, at)
	}
	nav := &TNodeNavigator{curr: start, root: root, attr: -1}
	it := e.Select(nav)
	for it.MoveNext() {
		out = append(out, wpath(it.Current().(*TNodeNavigator)))
	}
	return
}

func wfind(n *TNode, path string) *TNode {
	// path like "1.2" = 2nd child of 1st child
	for _, p := range strings.Split(path, ".") {
		var k int
		fmt.Sscan(p, &k)
		c := n.FirstChild
		for ; k > 1; k-- {
			c = c.NextSibling
		}
		n = c
	}
	return n
}

func wpath(n *TNodeNavigator) string {
	var parts []string
	c := n.curr
	for c.Parent != nil {
		k := 1
		for p := c.PrevSibling; p != nil; p = p.PrevSibling {
			k++
		}
		parts = append([]string{fmt.Sprint(k)}, parts...)
		c = c.Parent
	}
	s := strings.Join(parts, ".")
	if n.attr != -1 {
		s += "@" + n.curr.Attr[n.attr].Key
	}
	return s
}

func weval(root *TNode, at string, expr string) (v interface{}, err error) {
	defer func() {
		if e := recover(); e != nil {
			err = fmt.Errorf("PANIC: %v", e)
		}
	}()
	e, cerr := Compile(expr)
	if cerr != nil {
		return nil, cerr
	}
	start := root
	if at != "" {
		start = wfind(root, at)
	}
	return e.Evaluate(&TNodeNavigator{curr: start, root: root, attr: -1}), nil
}

const d1 = `<r><a><b/><c><b/></c></a><a><b/></a><d/><b/></r>`

func wantSel(t *testing.T, doc, at, expr string, want ...string) {
	t.Helper()
	got, err := wsel(t, wdoc(doc), at, expr)
	if err != nil {
		t.Errorf("%s: error %v", expr, err)
		return
	}
	// compare as sets
	gs := map[string]bool{}
	for _, g := range got {
		gs[g] = true
	}
	ws := map[string]bool{}
	for _, w := range want {
		ws[w] = true
	}
	if len(gs) != len(ws) {
		t.Errorf("%s on %s: got %v want %v", expr, doc, got, want)
		return
	}
	for w := range ws {
		if !gs[w] {
			t.Errorf("%s on %s: got %v want %v", expr, doc, got, want)
			return
		}
	}
}

func wantEval(t *testing.T, doc, at, expr string, want interface{}) {
	t.Helper()
	got, err := weval(wdoc(doc), at, expr)
	if err != nil {
		t.Errorf("%s: error %v", expr, err)
		return
	}
	if f, ok := want.(float64); ok && math.IsNaN(f) {
		if g, ok := got.(float64); !ok || !math.IsNaN(g) {
			t.Errorf("%s: got %v want NaN", expr, got)
		}
		return
	}
	if got != want {
		t.Errorf("%s on %s: got %#v want %#v", expr, doc, got, want)
	}
}

func TestW_substring(t *testing.T) {
	wantEval(t, d1, "", `substring('12345',3,10)`, "345")
	wantEval(t, d1, "", `substring('12345',0,3)`, "12")
	wantEval(t, d1, "", `substring('12345',-1,4)`, "12")
	wantEval(t, d1, "", `substring('12345',1.5,2.6)`, "234")
	wantEval(t, d1, "", `substring('12345',2)`, "2345")
	wantEval(t, d1, "", `substring('12345',4,1)`, "4")
	wantEval(t, d1, "", `substring('12345',5,1)`, "5")
	wantEval(t, d1, "", `substring('12345',6,1)`, "")
	wantEval(t, d1, "", `substring('12345',0)`, "12345")
	wantEval(t, d1, "", `substring('12345',-2,3)`, "")
	wantEval(t, d1, "", `substring('12345',-2,4)`, "1")
}

func TestW_cmpNaN(t *testing.T) {
	wantEval(t, `<r><b>x</b></r>`, "", `//b > 10`, false)
	wantEval(t, `<r><b>x</b><b>11</b></r>`, "", `//b > 10`, true)
	wantEval(t, `<r><b>x</b></r>`, "", `10 < //b`, false)
	wantEval(t, d1, "", `1 = 'a'`, false)
	wantEval(t, d1, "", `'a' = 1`, false)
	wantEval(t, d1, "", `1 != 'a'`, true)
	wantEval(t, d1, "", `'1' = 1`, true)
}

func TestW_boolNaN(t *testing.T) {
	wantEval(t, d1, "", `boolean(number('x'))`, false)
	wantEval(t, d1, "", `boolean(0)`, false)
	wantEval(t, d1, "", `boolean(2)`, true)
}

func TestW_mod(t *testing.T) {
	wantEval(t, d1, "", `1 mod 0`, math.NaN())
	wantEval(t, d1, "", `5 mod 2`, float64(1))
	wantEval(t, d1, "", `7 mod 7`, float64(0))
}

func TestW_boolcmp(t *testing.T) {
	wantEval(t, d1, "", `true() = 1`, true)
	wantEval(t, d1, "", `true() = 0`, false)
	wantEval(t, d1, "", `true() = true()`, true)
	wantEval(t, d1, "", `true() != true()`, false)
	wantEval(t, d1, "", `false() = false()`, true)
	wantEval(t, d1, "", `true() = 'a'`, true)
	wantEval(t, d1, "", `'' = false()`, true)
	wantEval(t, d1, "", `//b = true()`, true)
	wantEval(t, d1, "", `//zz = true()`, false)
	wantEval(t, d1, "", `true() > 0`, true)
	wantEval(t, d1, "", `true() > false()`, true)
}

func TestW_nilquery(t *testing.T) {
	if _, err := Compile(`$x/a`); err == nil {
		t.Errorf("$x/a compiled")
	}
	if _, err := Compile(`namespace::x`); err == nil {
		t.Errorf("namespace::x compiled")
	}
	if _, err := Compile(`a[$x]`); err == nil {
		t.Errorf("a[$x] compiled")
	}
	wantEval(t, `<r>hi</r>`, "1", `string()`, "hi")
	wantEval(t, `<r>12</r>`, "1", `number()`, float64(12))
	wantEval(t, `<r>12</r>`, "1", `boolean()`, true)
}

func TestW_evalPure(t *testing.T) {
	doc := wdoc(d1)
	e := MustCompile(`ancestor::a = ''`)
	nav := func() NodeNavigator { return &TNodeNavigator{curr: wfind(doc, "1.1.1"), root: doc, attr: -1} }
	v1 := e.Evaluate(nav())
	v2 := e.Evaluate(nav())
	if v1 != v2 || v1 != true {
		t.Errorf("Evaluate twice: %v then %v", v1, v2)
	}
}

func TestW_reset(t *testing.T) {
	wantSel(t, d1, "", `//b[ancestor::a]`, "1.1.1", "1.1.2.1", "1.2.1")
	wantSel(t, d1, "", `//b[following::d]`, "1.1.1", "1.1.2.1", "1.2.1")
	wantSel(t, d1, "", `//b[preceding::b]`, "1.1.2.1", "1.2.1", "1.4")
	wantSel(t, d1, "", `//b[ancestor::a/c]`, "1.1.1", "1.1.2.1")
	// descendantOverDescendant level, merge iterator, filter positmap
	wantSel(t, `<r><x><a><q><b/></q><b/></a></x><x><a><b/></a></x><x/></r>`, "", `//x[descendant::a/descendant::b]`, "1.1", "1.2")
	wantSel(t, `<r><p><a x="1"/><a x="2"/></p><p><a x="3"/></p><p><a/></p></r>`, "", `//p[a[@x][1]]`, "1.1", "1.2")
	wantSel(t, `<r><p><s><a/><a/></s><s><a/></s></p><p><s><a/></s></p></r>`, "", `//p[s/a[1]]`, "1.1", "1.2")
}

func TestW_shortcut(t *testing.T) {
	wantSel(t, d1, "", `descendant-or-self::c/b`, "1.1.2.1")
	wantSel(t, d1, "", `//b`, "1.1.1", "1.1.2.1", "1.2.1", "1.4")
	wantSel(t, `<r><b/><x><b/></x></r>`, "", `//b/descendant::b/descendant-or-self::b`)
	wantSel(t, `<r><b><b><b/></b></b></r>`, "", `//b/descendant::b/descendant-or-self::b`, "1.1.1", "1.1.1.1")
}

func TestW_union(t *testing.T) {
	wantSel(t, `<r><a><a/></a><b/><a-1><a/></a-1></r>`, "", `//a | //a-1`, "1.1", "1.1.1", "1.3", "1.3.1")
}

func TestW_cursor(t *testing.T) {
	wantEval(t, `<r><a x="1">q</a><b>q</b></r>`, "1", `a = b`, true)
	wantEval(t, `<r><a x="1">q</a><b>q</b></r>`, "1", `a[@x] = b`, true)
	wantEval(t, `<r><a x="1">q</a><b>q</b></r>`, "1", `count(a[@x]) + count(b)`, float64(2))
	wantEval(t, `<r><a x="1">q</a><b>q</b></r>`, "1", `concat(a[@x], b)`, "qq")
	wantEval(t, `<r><a><c/></a><b>q</b></r>`, "1", `count(a/c[1]) + count(b)`, float64(2))
	wantEval(t, `<r><a><c/></a><b>q</b><z/></r>`, "1", `count(a/following::z) + count(b)`, float64(2))
	wantEval(t, `<r><z/><a><c/></a><b>q</b></r>`, "1", `count(b/preceding::z) + count(b)`, float64(2))
}

func TestW_stringJoinRace(t *testing.T) {
	// sequential observable: none; covered by -race in TestW_concurrent
}

func TestW_deep(t *testing.T) {
	if os.Getenv("W_DEEP_CHILD") == "1" {
		n := 3000000
		s := "a/" + strings.Repeat("(", n) + "b" + strings.Repeat(")", n)
		_, err := Compile(s)
		if err == nil {
			fmt.Println("compiled")
		} else {
			fmt.Println("rejected")
		}
		return
	}
	cmd := exec.Command(os.Args[0], "-test.run", "TestW_deep$")
	cmd.Env = append(os.Environ(), "W_DEEP_CHILD=1")
	out, err := cmd.CombinedOutput()
	if err != nil {
		s := string(out)
		if len(s) > 300 {
			s = s[:300]
		}
		t.Errorf("deep nesting crashed the process: %v\n%s", err, s)
	}
}

func TestW_numberBool(t *testing.T) {
	wantEval(t, d1, "", `number(true())`, float64(1))
	wantEval(t, d1, "", `number(false())`, float64(0))
	wantEval(t, d1, "", `true() + 1`, float64(2))
}

func TestW_numberToString(t *testing.T) {
	wantEval(t, d1, "", `string(0.00001)`, "0.00001")
	wantEval(t, d1, "", `string(1 div 3 div 100000)`, "0.0000033333333333333333")
	wantEval(t, d1, "", `string(999999)`, "999999")
	wantEval(t, d1, "", `string(0.5)`, "0.5")
	wantEval(t, d1, "", `string(-0.0001)`, "-0.0001")
}

// Known finding (C08, not repaired): the lexical space of number() is that of
// strconv.ParseFloat, not the XPath Number production. This test documents the
// divergence; it FAILS on the current tree by design and is not part of any check.
func TestKnown_numberLexical(t *testing.T) {
	wantEval(t, d1, "", `number(' 12 ')`, float64(12))
	wantEval(t, d1, "", `number('1e3')`, math.NaN())
	wantEval(t, d1, "", `number('inf')`, math.NaN())
	wantEval(t, d1, "", `number('0x10')`, math.NaN())
}

func TestW_substringRoundHalf(t *testing.T) {
	// XPath round() takes a tie towards positive infinity: round(-2.5) = -2
	wantEval(t, d1, "", `substring('12345', -2.5, 5)`, "12")
	wantEval(t, d1, "", `substring('12345', -0.5, 2)`, "1")
	wantEval(t, d1, "", `substring('12345', 1.5, 2.6)`, "234")
	wantEval(t, d1, "", `substring('12345', 0, 3)`, "12")
	wantEval(t, d1, "", `substring('12345', 2, -0.5)`, "")
	wantEval(t, d1, "", `substring('12345', 2.5)`, "345")
}

func TestW_attributeOfAttribute(t *testing.T) {
	// the attribute (and child, descendant) axis of an attribute node is empty
	wantSel(t, `<r a="1" b="2" c="3"><x/></r>`, "", `/r/@a/@*`)
	wantSel(t, `<r a="1" b="2" c="3"><x/></r>`, "", `/r/@b/attribute::c`)
	wantEval(t, `<r a="1" b="2" c="3"><x/></r>`, "", `count(/r/@*/@*)`, float64(0))
	wantEval(t, `<r a="1" b="2" c="3"><x/></r>`, "", `count(/r/@a/node())`, float64(0))
}

func TestW_followingOfAttribute(t *testing.T) {
	// following:: of an attribute node: everything after it in document order, i.e. also the
	// descendants of its owner element
	doc := `<r><a x="1"><b><g/></b><c/></a><d/></r>`
	got, err := wsel(t, wdoc(doc), "", `/r/a/@x/following::*`)
	if err != nil || len(got) != 4 {
		t.Errorf("following::* of @x: got %v (%v), want the 4 elements b g c d", got, err)
	}
	got, err = wsel(t, wdoc(doc), "", `/r/a/@x/following::g`)
	if err != nil || len(got) != 1 {
		t.Errorf("following::g of @x: got %v (%v), want 1 node", got, err)
	}
	got, err = wsel(t, wdoc(doc), "", `/r/a/b/following::*`)
	if err != nil || len(got) != 2 {
		t.Errorf("following::* of b: got %v (%v), want c d", got, err)
	}
}

func TestW_keyCarriesNodeKind(t *testing.T) {
	// an attribute a="a" and the text node "a" of the same element are two nodes
	doc := `<r><e a="a">a</e></r>`
	wantEval(t, doc, "", `count(//e/@a | //e/text())`, float64(2))
	wantEval(t, doc, "", `count(//e/(@a, text()))`, float64(2))
}

func TestW_starIsNoNameChar(t *testing.T) {
	// optional whitespace never changes the meaning: price*2 is price * 2
	doc := `<r><book><price>10</price></book><book><price>40</price></book></r>`
	wantEval(t, doc, "", `count(//book[price*2 > 60])`, float64(1))
	wantEval(t, doc, "", `count(//book[price * 2 > 60])`, float64(1))
	wantEval(t, doc, "", `//book[1]/price*2`, float64(20))
	wantEval(t, doc, "", `count(//book/*)`, float64(2))
}

func TestW_filteredStepNotPruned(t *testing.T) {
	// a descendant step with a predicate must visit nested matches: the outer <a> fails [@p]
	doc := `<r><a id="1"><a id="2" p="1"><b id="b1"/></a><b id="b2"/></a></r>`
	got, err := wsel(t, wdoc(doc), "", `/r/descendant::a[@p]/descendant::b`)
	if err != nil || len(got) != 1 {
		t.Errorf("descendant::a[@p]/descendant::b: got %v (%v), want the one b below a[@p]", got, err)
	}
	got, err = wsel(t, wdoc(doc), "", `//a[@p]//b`)
	if err != nil || len(got) != 1 {
		t.Errorf("//a[@p]//b: got %v (%v), want 1 node", got, err)
	}
}

func TestW_severalPredicatesOnPrimary(t *testing.T) {
	// FilterExpr ::= PrimaryExpr | FilterExpr Predicate: every predicate counts, and the path goes on
	doc := `<r><b id="b3" k="1" j="1"/><b id="b4" k="1"/><b id="b5"/></r>`
	got, err := wsel(t, wdoc(doc), "", `(//b)[@k][@j]`)
	if err != nil || len(got) != 1 {
		t.Errorf("(//b)[@k][@j]: got %v (%v), want 1 node", got, err)
	}
	got, err = wsel(t, wdoc(doc), "", `(//b)[@k]`)
	if err != nil || len(got) != 2 {
		t.Errorf("(//b)[@k]: got %v (%v), want 2 nodes", got, err)
	}
	wantEval(t, doc, "", `count((//b)[@k][@j]/@id)`, float64(1))
}

// ---------------------------------------------------------------------------
// Probe (not part of any check): every axis from every context node of a few documents against a
// direct reading of the XPath 1.0 axis definitions on the test tree. Used to look for defects the
// contracts do not reach; what it finds becomes a fix: commit plus a contract obligation.
type pnode struct {
	n *TNode
	a int
}

func pAll(root *TNode) (out []pnode) {
	var walk func(n *TNode)
	walk = func(n *TNode) {
		out = append(out, pnode{n, -1})
		for c := n.FirstChild; c != nil; c = c.NextSibling {
			walk(c)
		}
	}
	walk(root)
	return
}

func pDesc(n *TNode) (out []pnode) {
	for c := n.FirstChild; c != nil; c = c.NextSibling {
		out = append(out, pnode{c, -1})
		out = append(out, pDesc(c)...)
	}
	return
}

func pAxis(root *TNode, c pnode, axis string) (out []pnode) {
	n := c.n
	isAttr := c.a != -1
	anc := func(m *TNode) (o []pnode) {
		for p := m.Parent; p != nil; p = p.Parent {
			o = append(o, pnode{p, -1})
		}
		return
	}
	isAnc := func(x, of *TNode) bool {
		for p := of.Parent; p != nil; p = p.Parent {
			if p == x {
				return true
			}
		}
		return false
	}
	all := pAll(root)
	idx := func(m *TNode) int {
		for i, x := range all {
			if x.n == m {
				return i
			}
		}
		return -1
	}
	switch axis {
	case "self":
		return []pnode{c}
	case "parent":
		if isAttr {
			return []pnode{{n, -1}}
		}
		if n.Parent != nil {
			return []pnode{{n.Parent, -1}}
		}
	case "ancestor":
		if isAttr {
			return append([]pnode{{n, -1}}, anc(n)...)
		}
		return anc(n)
	case "ancestor-or-self":
		return append([]pnode{c}, pAxis(root, c, "ancestor")...)
	case "child":
		if !isAttr {
			for k := n.FirstChild; k != nil; k = k.NextSibling {
				out = append(out, pnode{k, -1})
			}
		}
	case "descendant":
		if !isAttr {
			return pDesc(n)
		}
	case "descendant-or-self":
		return append([]pnode{c}, pAxis(root, c, "descendant")...)
	case "attribute":
		if !isAttr {
			for i := range n.Attr {
				out = append(out, pnode{n, i})
			}
		}
	case "following-sibling":
		if !isAttr {
			for k := n.NextSibling; k != nil; k = k.NextSibling {
				out = append(out, pnode{k, -1})
			}
		}
	case "preceding-sibling":
		if !isAttr {
			for k := n.PrevSibling; k != nil; k = k.PrevSibling {
				out = append(out, pnode{k, -1})
			}
		}
	case "following":
		i := idx(n)
		for _, x := range all[i+1:] {
			if isAttr || !isAnc(n, x.n) {
				out = append(out, x)
			}
		}
	case "preceding":
		i := idx(n)
		for _, x := range all[:i] {
			if !isAnc(x.n, n) {
				out = append(out, x)
			}
		}
	}
	return
}

func pMatch(x pnode, axis, test string) bool {
	if test == "node()" {
		return true
	}
	if axis == "attribute" {
		return test == "*" || x.n.Attr[x.a].Key == test
	}
	if x.a != -1 {
		return false
	}
	if x.n.Type != ElementNode {
		return false
	}
	return test == "*" || x.n.Data == test
}

func TestProbe_axes(t *testing.T) {
	docs := []string{
		`<r><a x="1" y="2"><b><g/>t</b><c/></a><d z="3"/><b/><!--k--></r>`,
		`<r a="1"><r a="2"><r/></r>text<b/></r>`,
	}
	axes := []string{"self", "parent", "ancestor", "ancestor-or-self", "child", "descendant", "descendant-or-self", "attribute", "following-sibling", "preceding-sibling", "following", "preceding"}
	tests := []string{"node()", "*", "b", "r", "x", "a"}
	bad := 0
	for _, ds := range docs {
		root := wdoc(ds)
		var ctxs []pnode
		for _, x := range pAll(root) {
			ctxs = append(ctxs, x)
			for i := range x.n.Attr {
				ctxs = append(ctxs, pnode{x.n, i})
			}
		}
		for _, c := range ctxs {
			for _, ax := range axes {
				for _, nt := range tests {
					expr := ax + "::" + nt
					var want []pnode
					for _, x := range pAxis(root, c, ax) {
						if pMatch(x, ax, nt) {
							want = append(want, x)
						}
					}
					e, err := Compile(expr)
					if err != nil {
						t.Fatalf("%s: %v", expr, err)
					}
					got := map[pnode]int{}
					func() {
						defer func() {
							if r := recover(); r != nil {
								t.Errorf("%s: panic %v", expr, r)
							}
						}()
						it := e.Select(&TNodeNavigator{curr: c.n, root: root, attr: c.a})
						for k := 0; it.MoveNext() && k < 1000; k++ {
							cur := it.Current().(*TNodeNavigator)
							got[pnode{cur.curr, cur.attr}]++
						}
					}()
					ok := len(got) == len(want)
					for _, w := range want {
						if got[w] != 1 {
							ok = false
						}
					}
					if !ok && bad < 25 {
						bad++
						t.Errorf("doc %q ctx (%s,%d) %s: got %d nodes, want %d", ds, c.n.Data, c.a, expr, len(got), len(want))
					}
				}
			}
		}
	}
}

func TestProbe_twoSteps(t *testing.T) {
	docs := []string{
		`<r><a x="1" y="2"><b><g/>t</b><c/></a><d z="3"/><b/><!--k--></r>`,
		`<r a="1"><r a="2"><r/></r>text<b/></r>`,
	}
	axes := []string{"self", "parent", "ancestor", "ancestor-or-self", "child", "descendant", "descendant-or-self", "attribute", "following-sibling", "preceding-sibling", "following", "preceding"}
	tests := []string{"node()", "*", "b", "r"}
	bad := 0
	for _, ds := range docs {
		root := wdoc(ds)
		var ctxs []pnode
		for _, x := range pAll(root) {
			ctxs = append(ctxs, x)
			for i := range x.n.Attr {
				ctxs = append(ctxs, pnode{x.n, i})
			}
		}
		for _, c := range ctxs {
			for _, ax1 := range axes {
				for _, ax2 := range axes {
					for _, nt := range tests {
						expr := ax1 + "::node()/" + ax2 + "::" + nt
						want := map[pnode]bool{}
						for _, m := range pAxis(root, c, ax1) {
							for _, x := range pAxis(root, m, ax2) {
								if pMatch(x, ax2, nt) {
									want[x] = true
								}
							}
						}
						e, err := Compile(expr)
						if err != nil {
							t.Fatalf("%s: %v", expr, err)
						}
						got := map[pnode]int{}
						func() {
							defer func() {
								if r := recover(); r != nil {
									t.Errorf("%s: panic %v", expr, r)
								}
							}()
							it := e.Select(&TNodeNavigator{curr: c.n, root: root, attr: c.a})
							for k := 0; it.MoveNext() && k < 5000; k++ {
								cur := it.Current().(*TNodeNavigator)
								got[pnode{cur.curr, cur.attr}]++
							}
						}()
						ok := len(got) == len(want)
						for w := range want {
							if got[w] == 0 {
								ok = false
							}
						}
						if !ok && bad < 30 {
							bad++
							t.Errorf("doc %q ctx (%s,%d) %s: got %d distinct nodes, want %d", ds, c.n.Data, c.a, expr, len(got), len(want))
						}
					}
				}
			}
		}
	}
}

func TestProbe_order(t *testing.T) {
	docs := []string{
		`<r><a x="1" y="2"><b><g/>t</b><c/></a><d z="3"/><b/><a><b/><b w="1"/></a></r>`,
		`<r a="1"><r a="2"><r><b/></r></r>text<b/></r>`,
	}
	exprs := []string{"//b", "//*", "//r", "/r/*", "/r/*/*", "*/*", "/r/a/b", "//node()", "/r/*/@*", "/r/a/@x", "*", "./*/*/self::*", "//@*", "/r//b", "a//b", "//text()"}
	for _, ds := range docs {
		root := wdoc(ds)
		order := map[pnode]int{}
		k := 0
		for _, x := range pAll(root) {
			order[x] = k
			k++
			for i := range x.n.Attr {
				order[pnode{x.n, i}] = k
				k++
			}
		}
		for _, c := range []pnode{{root, -1}, {root.FirstChild, -1}} {
			for _, ex := range exprs {
				e, err := Compile(ex)
				if err != nil {
					t.Fatalf("%s: %v", ex, err)
				}
				it := e.Select(&TNodeNavigator{curr: c.n, root: root, attr: c.a})
				last := -1
				for n := 0; it.MoveNext() && n < 1000; n++ {
					cur := it.Current().(*TNodeNavigator)
					o := order[pnode{cur.curr, cur.attr}]
					if o <= last {
						t.Errorf("doc %q ctx %s %s: node %d reported after node %d (order/duplicate)", ds, c.n.Data, ex, o, last)
						break
					}
					last = o
				}
			}
		}
	}
}

func TestProbe_positions(t *testing.T) {
	ds := `<r><a><b i="1"/><c/><b i="2"/><b i="3"/></a><a><b i="4"/></a><a/><b i="5"/></r>`
	root := wdoc(ds)
	sel := func(ex string) []string {
		e, err := Compile(ex)
		if err != nil {
			t.Fatalf("%s: %v", ex, err)
		}
		it := e.Select(&TNodeNavigator{curr: root, root: root, attr: -1})
		var out []string
		for n := 0; it.MoveNext() && n < 100; n++ {
			cur := it.Current().(*TNodeNavigator)
			out = append(out, cur.curr.Data+cur.curr.getAttribute("i"))
		}
		return out
	}
	cases := map[string]string{
		"/r/a/b[1]":                  "b1 b4",
		"/r/a/b[2]":                  "b2",
		"/r/a/b[last()]":             "b3 b4",
		"/r/a/b[last()-1]":           "b2",
		"/r/a/b[position()=2]":       "b2",
		"/r/a/b[position()>1]":       "b2 b3",
		"/r/a/*[2]":                  "c",
		"/r/a/*[position()=last()]":  "b3 b4",
		"(/r/a/b)[2]":                "b2",
		"(/r/a/b)[4]":                "b4",
		"(//b)[5]":                   "b5",
		"//b[1]":                     "b5 b1 b4", // the right set; not in document order (order of predicate paths is outside C12)
		"/r/a/b[1][@i]":              "b1 b4",
		"/r/a[b][2]":                 "a",
		"/r/*[last()]":               "b5",
		"/r/a[2]/b[1]":               "b4",
		"/r/a[last()]":               "a",
		"//a/b[position()=last()]":   "b3 b4",
		"/r/a/b[position()<last()]":  "b1 b2",
		"/r/a[1]/b[position()!=2]":   "b1 b3",
		"//a/b[1]":                   "b1 b4",
		"//a/b[2]":                   "b2",
		"/r/a/b[last()][@i]":         "b3 b4",
		"/r/a/*[2][self::c]":         "c",
		"/r/a/*[2][self::b]":         "",
		"/r/*/b[1]":                  "b1 b4",
		"//*/b[2]":                   "b2",
		"/r/a[1]/b[last()-1]":        "b2",
		"/r/a/b[position()=last()-1]": "b2",
		"/r/a/b[1][@i=1]":            "b1",
		"/r/a/b[2][@i=1]":            "",
		"/r/a/b[position()>=2][@i>2]": "b3",
		"/r/a[b][1]":                 "a",
		"/r/a[2][b]":                 "a",
		"/r/a[3][b]":                 "",
		"/r/*[4]":                    "b5",
		"/r/*[5]":                    "",
		"/r/a/b[0]":                  "",
		"/r/a/b[4]":                  "",
		"/r/a/b[1.0]":                "b1 b4",
	}
	// Divergences seen by this probe that lie outside the statements of C02/C03 (kept as a record,
	// not asserted): /r/a/b[@i>1][1] yields b2 only (XPath: b2 b4 — a positional predicate after a
	// boolean one counts across parents); (//b)[last()] yields b3 (XPath: b5) and
	// (/r/a/b)[position()<3] yields b1 b2 b4 (XPath: b1 b2) — on a parenthesised path only [n] is
	// counted over the whole path; /r/a/b[last()][last()] yields b4 only (a second positional
	// predicate counts across parents).
	for ex, want := range cases {
		got := strings.Join(sel(ex), " ")
		if got != want {
			t.Errorf("%s: got %q want %q", ex, got, want)
		}
	}
}

func TestProbe_predicates(t *testing.T) {
	docs := []string{
		`<r><a x="1" y="2"><b i="1"><g/>t</b><c/></a><d z="3"/><b i="5"/><a><b i="2"/><b w="1" i="3"/></a><a/></r>`,
		`<r a="1"><r a="2"><r><b/></r></r>text<b/><a><a><b/></a></a></r>`,
	}
	bases := []string{"//a", "//b", "//*", "/r/*", "//r", "/r/a/b", "//node()", "//@*", "//@i", "//b/following::*", "//b/ancestor::*", "//a[b]", "//*[@i]", "//b/preceding-sibling::*", "/r/a/descendant::*", "//b/..", "(//a | //b)", "(//a/b | //d)", "//text()", "/r/a[1]/*"}
	preds := []string{"b", "@x", "@i>1", "not(b)", "b and @x", "b or c", "*", "..", "ancestor::a", "following::b", "preceding::b", "following-sibling::*", "preceding-sibling::b", "descendant::b", "b[@i>1]", "count(b)>1", "self::a", "@i=2 or @i=3", "string-length(name())>0", "text()", "a/b", "b/@i", "not(@i) and not(*)", ".//b", "parent::a", "@*", "b|c", "contains(name(),'a')", "starts-with(name(), 'b')", "ancestor::*[@x]", "following::*[@w]", "*[@i]", "count(*)=0", "true()", "false()", "'x'", "''", ". > 1", ". = '2'", "../@x", "name()='b'", "self::*", "not(self::b)", "count(../*) > 2", "following-sibling::*[1][self::c]", "boolean(@i) = true()", "@i != 1", "string-length(.) > 0", "contains(., 't')", ".//g or self::g", "@i = ../b/@i", "count(ancestor::*) = 2", "preceding::*[@x]", "@i mod 2 = 1", "number(@i) > 1.5", "not(following::*)", "not(preceding::*)"}
	bad := 0
	for _, ds := range docs {
		root := wdoc(ds)
		nav := func(n pnode) *TNodeNavigator { return &TNodeNavigator{curr: n.n, root: root, attr: n.a} }
		for _, base := range bases {
			be := MustCompile(base)
			for _, pr := range preds {
				pe, err := Compile("boolean(" + pr + ")")
				if err != nil {
					t.Fatalf("%s: %v", pr, err)
				}
				want := map[pnode]bool{}
				it := be.Select(nav(pnode{root, -1}))
				for it.MoveNext() {
					cur := it.Current().(*TNodeNavigator)
					c := pnode{cur.curr, cur.attr}
					if v, ok := pe.Evaluate(nav(c)).(bool); ok && v {
						want[c] = true
					}
				}
				fe, err := Compile(base + "[" + pr + "]")
				if err != nil {
					t.Fatalf("%s[%s]: %v", base, pr, err)
				}
				got := map[pnode]bool{}
				func() {
					defer func() {
						if r := recover(); r != nil {
							t.Errorf("%s[%s]: panic %v", base, pr, r)
						}
					}()
					it2 := fe.Select(nav(pnode{root, -1}))
					for k := 0; it2.MoveNext() && k < 5000; k++ {
						cur := it2.Current().(*TNodeNavigator)
						got[pnode{cur.curr, cur.attr}] = true
					}
				}()
				ok := len(got) == len(want)
				for w := range want {
					if !got[w] {
						ok = false
					}
				}
				if !ok && bad < 30 {
					bad++
					t.Errorf("doc %q: %s[%s]: got %d nodes, want %d", ds, base, pr, len(got), len(want))
				}
			}
		}
	}
}

func TestProbe_union(t *testing.T) {
	docs := []string{
		`<r><a x="1" y="2"><b i="1"><g/>t</b><c/></a><d z="3"/><b i="5"/><a><b i="2"/><b w="1" i="3"/></a><a-1/><a/></r>`,
		`<r a="1"><r a="2"><r><b/></r></r>text<b/><a><a><b/></a></a><!--c--></r>`,
	}
	paths := []string{"//a", "//b", "//*", "/r/*", "//r", "/r/a/b", "//node()", "//@*", "//text()", "/r/a[1]", "//b[@i>1]", "..", ".", "//a/..", "//b/ancestor::*", "//comment()", "/r", "/", "//a-1", "//@x", "//@i"}
	bad := 0
	for _, ds := range docs {
		root := wdoc(ds)
		nav := func(n pnode) *TNodeNavigator { return &TNodeNavigator{curr: n.n, root: root, attr: n.a} }
		set := func(ex string, c pnode) (map[pnode]int, error) {
			e, err := Compile(ex)
			if err != nil {
				return nil, err
			}
			out := map[pnode]int{}
			it := e.Select(nav(c))
			for k := 0; it.MoveNext() && k < 5000; k++ {
				cur := it.Current().(*TNodeNavigator)
				out[pnode{cur.curr, cur.attr}]++
			}
			return out, nil
		}
		for _, c := range []pnode{{root, -1}, {root.FirstChild, -1}, {root.FirstChild.FirstChild, -1}} {
			for _, p1 := range paths {
				for _, p2 := range paths {
					a, _ := set(p1, c)
					b, _ := set(p2, c)
					u, err := set(p1+" | "+p2, c)
					if err != nil {
						t.Fatalf("%s | %s: %v", p1, p2, err)
					}
					ok := true
					for k, n := range u {
						if n != 1 || (a[k] == 0 && b[k] == 0) {
							ok = false
						}
					}
					for k := range a {
						if u[k] == 0 {
							ok = false
						}
					}
					for k := range b {
						if u[k] == 0 {
							ok = false
						}
					}
					if !ok && bad < 20 {
						bad++
						t.Errorf("doc %q ctx %s: %s | %s: union has %d nodes, operands %d and %d", ds, c.n.Data, p1, p2, len(u), len(a), len(b))
					}
				}
			}
		}
	}
}

func TestProbe_context(t *testing.T) {
	docs := []string{
		`<r><a x="1" y="2"><b i="1"><g/>t</b><c/></a><d z="3"/><b i="5"/><a><b i="2"/><b w="1" i="3"/></a><a/></r>`,
		`<r a="1"><r a="2"><r><b/></r></r>text<b/><a><a><b/></a></a><!--c--></r>`,
	}
	rels := []string{"b", "*", "..", ".", "@*", "a/b", "*/*", "../*", "descendant::b", "following::*", "preceding::*", "ancestor::*", "following-sibling::node()", "preceding-sibling::node()", "self::a", "b[@i>1]", "*[b]", "../b | b", "(b)", "b[true()]", ".//b", "../..", "a[1]", "b[last()]", "*[1]/*[1]", "text()", "node()", "ancestor-or-self::node()", "descendant-or-self::*", "a | b", "b/@i", "..//@i"}
	abss := []string{"/r", "//b", "/r/a/b", "/", "//@*", "/r/*[2]", "//a[b]", "/r/a | //d", "//b/..", "count(//b)", "//b[1]", "string(/r/a/@x)", "/r/a = /r/d", "boolean(//g)"}
	bad := 0
	for _, ds := range docs {
		root := wdoc(ds)
		nav := func(n pnode) *TNodeNavigator { return &TNodeNavigator{curr: n.n, root: root, attr: n.a} }
		addr := func(c pnode) string {
			var parts []string
			for m := c.n; m.Parent != nil; m = m.Parent {
				k := 1
				for s := m.PrevSibling; s != nil; s = s.PrevSibling {
					k++
				}
				parts = append([]string{fmt.Sprintf("node()[%d]", k)}, parts...)
			}
			a := "/" + strings.Join(parts, "/")
			if c.a != -1 {
				if a != "/" {
					a += "/"
				}
				a += "@" + c.n.Attr[c.a].Key
			}
			return a
		}
		set := func(ex string, c pnode) (map[pnode]int, error) {
			e, err := Compile(ex)
			if err != nil {
				return nil, err
			}
			out := map[pnode]int{}
			it := e.Select(nav(c))
			for k := 0; it.MoveNext() && k < 5000; k++ {
				cur := it.Current().(*TNodeNavigator)
				out[pnode{cur.curr, cur.attr}]++
			}
			return out, nil
		}
		same := func(a, b map[pnode]int) bool {
			if len(a) != len(b) {
				return false
			}
			for k := range a {
				if b[k] == 0 {
					return false
				}
			}
			return true
		}
		var ctxs []pnode
		for _, x := range pAll(root) {
			ctxs = append(ctxs, x)
			for i := range x.n.Attr {
				ctxs = append(ctxs, pnode{x.n, i})
			}
		}
		for _, c := range ctxs {
			for _, ab := range abss {
				e := MustCompile(ab)
				v1 := e.Evaluate(nav(c))
				v2 := e.Evaluate(nav(pnode{root, -1}))
				if _, isIt := v1.(*NodeIterator); isIt {
					a, _ := set(ab, c)
					b, _ := set(ab, pnode{root, -1})
					if !same(a, b) && bad < 20 {
						bad++
						t.Errorf("doc %q: absolute %s from %s differs from the root (%d vs %d nodes)", ds, ab, addr(c), len(a), len(b))
					}
				} else if fmt.Sprint(v1) != fmt.Sprint(v2) && bad < 20 {
					bad++
					t.Errorf("doc %q: absolute %s from %s = %v, from the root %v", ds, ab, addr(c), v1, v2)
				}
			}
			if c.n.Parent == nil && c.a == -1 {
				continue
			}
			for _, rp := range rels {
				a, err := set(rp, c)
				if err != nil {
					t.Fatalf("%s: %v", rp, err)
				}
				full := addr(c) + "/" + rp
				if strings.HasPrefix(rp, "(") || strings.Contains(rp, " | ") {
					continue // addr/p does not parse for these forms; covered by the simple forms
				}
				b, err := set(full, pnode{root, -1})
				if err != nil {
					t.Fatalf("%s: %v", full, err)
				}
				if !same(a, b) && bad < 20 {
					bad++
					t.Errorf("doc %q: %s at %s gives %d nodes, %s from the root gives %d", ds, rp, addr(c), len(a), full, len(b))
				}
			}
		}
	}
}

func TestProbe_purity(t *testing.T) {
	docs := []string{
		`<r><a x="1" y="2"><b i="1"><g/>t</b><c/></a><d z="3"/><b i="5"/><a><b i="2"/><b w="1" i="3"/></a><a/></r>`,
		`<r a="1"><r a="2"><r><b/></r></r>text<b/><a><a><b/></a></a><!--c--></r>`,
	}
	exprs := []string{"//b", "//a[b]", "//b[1]", "(//b)[2]", "//b[last()]", "//a | //b", "//b/following::*", "//b/preceding::*", "//b/ancestor::*", "count(//b)", "sum(//@i)", "string(//b/@i)", "//a[count(b)>1]", "//b[position()=2]", "//*[@i>1 and @i<5]", "concat(//b/@i, 'x')", "//b[../c]", "//a[b[@i>1]]", "reverse(//b)", "//b[not(@w)]", "string-join(//b/@i, ',')", "//a/b[2]/@i", "boolean(//g)", "//b = //c", "//@i > 2", "normalize-space(//b)", "substring(//b/@i, 1)", "translate(//a/@x, '1', 'z')", "//a[.//g]", "(//a | //d)[2]", "//r[b]", "//r/r", "name(//*[2])", "local-name(/r/*[1])", "/r/a[1]/b | /r/a[2]/b", "/r/*[self::a or self::d]", "lower-case(name(/*))", "//b[@i = //b/@i]", "starts-with(name(//b), 'b')"}
	render := func(v interface{}) string {
		if it, ok := v.(*NodeIterator); ok {
			var out []string
			for k := 0; it.MoveNext() && k < 1000; k++ {
				cur := it.Current().(*TNodeNavigator)
				out = append(out, fmt.Sprintf("%p/%d", cur.curr, cur.attr))
			}
			return strings.Join(out, " ")
		}
		return fmt.Sprint(v)
	}
	for _, ds := range docs {
		root := wdoc(ds)
		nav := func(n *TNode) *TNodeNavigator { return &TNodeNavigator{curr: n, root: root, attr: -1} }
		ctxs := []*TNode{root, root.FirstChild, root.FirstChild.FirstChild}
		var compiled []*Expr
		for _, ex := range exprs {
			e, err := Compile(ex)
			if err != nil {
				t.Fatalf("%s: %v", ex, err)
			}
			compiled = append(compiled, e)
		}
		first := map[string]string{}
		for round := 0; round < 3; round++ {
			for i, e := range compiled {
				for j, c := range ctxs {
					key := fmt.Sprintf("%d/%d", i, j)
					var got string
					func() {
						defer func() {
							if r := recover(); r != nil {
								got = fmt.Sprint("panic: ", r)
							}
						}()
						if round == 1 {
							// partial consumption in between
							it := e.Select(nav(c))
							it.MoveNext()
						}
						got = render(e.Evaluate(nav(c)))
						if _, isIt := e.Evaluate(nav(c)).(*NodeIterator); isIt {
							got2 := render(interface{}(e.Select(nav(c))))
							if got2 != got {
								t.Errorf("doc %q %s at ctx %d: Evaluate gives %q, Select %q", ds, exprs[i], j, got, got2)
							}
						}
					}()
					if round == 0 {
						first[key] = got
					} else if first[key] != got {
						t.Errorf("doc %q %s at ctx %d: round %d gives %q, first round %q", ds, exprs[i], j, round, got, first[key])
					}
				}
			}
		}
	}
}

func TestProbe_compileTotal(t *testing.T) {
	toks := []string{"a", "b:c", "*", "/", "//", ".", "..", "@", "[", "]", "(", ")", "|", "=", "!=", "<", "<=", ">", ">=", "+", "-", "div", "mod", "and", "or", ",", "1", "2.5", ".5", "'s'", "\"t\"", "::", "child::", "ancestor::", "text()", "node()", "count(", "position()", "last()", "$v", " ", "\t", "not(", "processing-instruction(", "comment()", "x:*", "1e3", "''", "'", "\"", "#", "!", "{", "\x00", "é", "self::node()", "a[1]", "true()", "concat(", "namespace::x"}
	seed := uint64(12345)
	rnd := func(n int) int {
		seed = seed*6364136223846793005 + 1442695040888963407
		return int((seed >> 33) % uint64(n))
	}
	for i := 0; i < 300000; i++ {
		var sb strings.Builder
		for k := rnd(8) + 1; k > 0; k-- {
			sb.WriteString(toks[rnd(len(toks))])
			if rnd(3) == 0 {
				sb.WriteByte(' ')
			}
		}
		s := sb.String()
		func() {
			defer func() {
				if r := recover(); r != nil {
					t.Errorf("Compile(%q) panicked: %v", s, r)
				}
			}()
			e, err := Compile(s)
			if (e == nil) == (err == nil) {
				t.Errorf("Compile(%q) = (%v, %v)", s, e, err)
			}
		}()
		if t.Failed() {
			break
		}
	}
}

// (reverse( is left out of the token list: reverse(<comparison>) never finishes — a comparison used as
// a node-set yields its context node for ever; a type error in XPath terms, outside the statements.)
func TestProbe_evalNoRuntimeError(t *testing.T) {
	toks := []string{"a", "b", "*", "/", "//", ".", "..", "@x", "@*", "[", "]", "(", ")", "|", "=", "!=", "<", ">", "+", "-", "div", "mod", "and", "or", ",", "1", "2.5", "0", "'s'", "''", "child::", "ancestor::", "following::", "preceding::", "descendant::", "parent::", "self::", "attribute::", "following-sibling::", "preceding-sibling::", "text()", "node()", "count(", "position()", "last()", "not(", "sum(", "string(", "number(", "boolean(", "concat(", "contains(", "starts-with(", "substring(", "string-length(", "normalize-space(", "translate(", "name(", "local-name(", "floor(", "ceiling(", "round(", "true()", "false()", "string-join(", "ends-with(", "lower-case(", "substring-before(", "substring-after(", "matches(", "replace(", "namespace-uri("}
	seed := uint64(777)
	rnd := func(n int) int {
		seed = seed*6364136223846793005 + 1442695040888963407
		return int((seed >> 33) % uint64(n))
	}
	root := wdoc(`<r><a x="1" y="q"><b i="1"><g/>t</b><c/>  12 </a><d z="3"/><b i="x"/><a><b i="2"/><b w="1" i="3"/></a><a/><!--k--></r>`)
	ctxs := []*TNodeNavigator{{curr: root, root: root, attr: -1}, {curr: root.FirstChild.FirstChild, root: root, attr: -1}, {curr: root.FirstChild.FirstChild, root: root, attr: 0}}
	ok := 0
	hangs := 0
	for i := 0; i < 400000 && hangs <= 5; i++ {
		var sb strings.Builder
		for k := rnd(7) + 1; k > 0; k-- {
			sb.WriteString(toks[rnd(len(toks))])
		}
		s := sb.String()
		e, err := Compile(s)
		if err != nil {
			// try to close parentheses
			d := strings.Count(s, "(") - strings.Count(s, ")")
			if d < 0 {
				continue
			}
			s2 := s + strings.Repeat(")", d)
			if e, err = Compile(s2); err != nil {
				continue
			}
			s = s2
		}
		ok++
		for _, c := range ctxs {
			done := make(chan bool, 1)
			go func() {
				defer func() {
					if r := recover(); r != nil {
						if _, isRT := r.(interface{ RuntimeError() }); isRT {
							t.Errorf("%q: Go runtime error: %v", s, r)
						}
					}
					done <- true
				}()
				cc := *c
				v := e.Evaluate(&cc)
				if it, isIt := v.(*NodeIterator); isIt {
					for k := 0; it.MoveNext() && k < 2000; k++ {
					}
				}
			}()
			select {
			case <-done:
			case <-time.After(2 * time.Second):
				t.Errorf("%q: evaluation does not finish", s)
				hangs++
			}
			if hangs > 5 {
				return
			}
		}
	}
	t.Logf("%d expressions compiled and were evaluated", ok)
}

func TestProbe_comparisons(t *testing.T) {
	root := wdoc(`<r><b i="1">1</b><b i="x">x</b><b i="2">2</b><b i="3">10</b><c>2</c><c>y</c><e/></r>`)
	type operand struct {
		src  string
		kind string // num str set bool
		num  float64
		str  string
		set  []string
		b    bool
	}
	nan := math.NaN()
	ops := []operand{
		{src: "1", kind: "num", num: 1}, {src: "2", kind: "num", num: 2}, {src: "number('x')", kind: "num", num: nan}, {src: "10", kind: "num", num: 10}, {src: "0", kind: "num", num: 0},
		{src: "'1'", kind: "str", str: "1"}, {src: "'x'", kind: "str", str: "x"}, {src: "''", kind: "str", str: ""}, {src: "'2'", kind: "str", str: "2"},
		{src: "//b", kind: "set", set: []string{"1", "x", "2", "10"}}, {src: "//b/@i", kind: "set", set: []string{"1", "x", "2", "3"}}, {src: "//c", kind: "set", set: []string{"2", "y"}}, {src: "//zz", kind: "set", set: nil}, {src: "//e", kind: "set", set: []string{""}},
		{src: "true()", kind: "bool", b: true}, {src: "false()", kind: "bool", b: false},
	}
	toNum := func(s string) float64 {
		s = strings.TrimSpace(s)
		v, err := strconv.ParseFloat(s, 64)
		if err != nil {
			return nan
		}
		return v
	}
	cmpNum := func(op string, a, b float64) bool {
		switch op {
		case "=":
			return a == b
		case "!=":
			return a != b
		case "<":
			return a < b
		case "<=":
			return a <= b
		case ">":
			return a > b
		}
		return a >= b
	}
	cmpStr := func(op string, a, b string) bool {
		if op == "=" {
			return a == b
		}
		return a != b
	}
	truth := func(o operand) bool {
		switch o.kind {
		case "num":
			return o.num != 0 && !math.IsNaN(o.num)
		case "str":
			return o.str != ""
		case "set":
			return len(o.set) > 0
		}
		return o.b
	}
	eval := func(ex string) (interface{}, error) {
		e, err := Compile(ex)
		if err != nil {
			return nil, err
		}
		var v interface{}
		func() {
			defer func() {
				if r := recover(); r != nil {
					err = fmt.Errorf("panic: %v", r)
				}
			}()
			v = e.Evaluate(&TNodeNavigator{curr: root, root: root, attr: -1})
		}()
		return v, err
	}
	bad := 0
	report := func(ex string, got interface{}, want bool, err error) {
		if err != nil || got != interface{}(want) {
			if bad < 40 {
				t.Errorf("%s: got %v (%v), want %v", ex, got, err, want)
			}
			bad++
		}
	}
	for _, l := range ops {
		for _, r := range ops {
			for _, op := range []string{"=", "!=", "<", "<=", ">", ">="} {
				rel := op != "=" && op != "!="
				var want bool
				inScope := true
				switch {
				case l.kind == "num" && r.kind == "num":
					want = cmpNum(op, l.num, r.num)
				case l.kind == "set" && r.kind == "num":
					for _, s := range l.set {
						want = want || cmpNum(op, toNum(s), r.num)
					}
				case l.kind == "num" && r.kind == "set":
					for _, s := range r.set {
						want = want || cmpNum(op, l.num, toNum(s))
					}
				case !rel && l.kind == "str" && r.kind == "str":
					want = cmpStr(op, l.str, r.str)
				case !rel && l.kind == "set" && r.kind == "str":
					for _, s := range l.set {
						want = want || cmpStr(op, s, r.str)
					}
				case !rel && l.kind == "str" && r.kind == "set":
					for _, s := range r.set {
						want = want || cmpStr(op, l.str, s)
					}
				case !rel && l.kind == "set" && r.kind == "set":
					for _, a := range l.set {
						for _, b := range r.set {
							want = want || cmpStr(op, a, b)
						}
					}
				default:
					inScope = false
				}
				if !inScope {
					continue
				}
				ex := l.src + " " + op + " " + r.src
				got, err := eval(ex)
				report(ex, got, want, err)
			}
			for _, op := range []string{"and", "or"} {
				want := truth(l) && truth(r)
				if op == "or" {
					want = truth(l) || truth(r)
				}
				ex := l.src + " " + op + " " + r.src
				got, err := eval(ex)
				report(ex, got, want, err)
			}
		}
		got, err := eval("boolean(" + l.src + ")")
		report("boolean("+l.src+")", got, truth(l), err)
		if l.kind == "bool" || l.kind == "set" {
			got, err := eval("not(" + l.src + ")")
			report("not("+l.src+")", got, !truth(l), err)
		}
	}
}

func TestProbe_arithmetic(t *testing.T) {
	root := wdoc(`<r><n>1</n><n>2.5</n><n>-3</n><m>x</m><e/></r>`)
	eval := func(ex string) interface{} {
		e, err := Compile(ex)
		if err != nil {
			t.Fatalf("%s: %v", ex, err)
		}
		var v interface{}
		func() {
			defer func() {
				if r := recover(); r != nil {
					v = fmt.Sprint("panic: ", r)
				}
			}()
			v = e.Evaluate(&TNodeNavigator{curr: root, root: root, attr: -1})
		}()
		return v
	}
	nan, inf := math.NaN(), math.Inf(1)
	type op struct {
		src string
		v   float64
	}
	vals := []op{{"0", 0}, {"1", 1}, {"2", 2}, {"7", 7}, {"2.5", 2.5}, {".5", .5}, {"-3", -3}, {"- 3", -3}, {"--3", 3}, {"1000000", 1e6}, {"number('x')", nan}, {"1 div 0", inf}, {"-1 div 0", -inf}, {"number(//zz)", nan}, {"//n[1]", 1}, {"//n[2]", 2.5}, {"//m", nan}, {"'4'", 4}, {"'y'", nan}, {"true()", 1}, {"false()", 0}, {"count(//n)", 3}, {"sum(//n)", 0.5}, {"floor(2.5)", 2}, {"ceiling(2.5)", 3}, {"floor(-2.5)", -3}, {"ceiling(-2.5)", -2}, {"number('12')", 12}, {"count(//zz)", 0}, {"sum(//zz)", 0}, {"0.1", 0.1}, {"12345.678", 12345.678}}
	same := func(a interface{}, w float64) bool {
		f, ok := a.(float64)
		if !ok {
			return false
		}
		if math.IsNaN(w) {
			return math.IsNaN(f)
		}
		return f == w
	}
	bad := 0
	for _, a := range vals {
		if got := eval("number(" + a.src + ")"); !same(got, a.v) {
			t.Errorf("number(%s): got %v want %v", a.src, got, a.v)
		}
		for _, b := range vals {
			for _, o := range []string{"+", "-", "*", "div", "mod"} {
				var w float64
				switch o {
				case "+":
					w = a.v + b.v
				case "-":
					w = a.v - b.v
				case "*":
					w = a.v * b.v
				case "div":
					w = a.v / b.v
				case "mod":
					if !(a.v >= 0 && b.v > 0 && a.v == math.Trunc(a.v) && b.v == math.Trunc(b.v)) || math.IsInf(a.v, 0) || math.IsInf(b.v, 0) {
						continue // the property only speaks about non-negative integers and a non-zero divisor
					}
					w = math.Mod(a.v, b.v)
				}
				ex := "(" + a.src + ") " + o + " (" + b.src + ")"
				if got := eval(ex); !same(got, w) && bad < 30 {
					bad++
					t.Errorf("%s: got %v want %v", ex, got, w)
				}
			}
		}
	}
	for ex, want := range map[string]string{"string(0.5)": "0.5", "string(100)": "100", "string(-2.50)": "-2.5", "string(999999)": "999999", "string(0.000001)": "0.000001", "string(1 div 3)": "0.3333333333333333", "string(12345.678)": "12345.678", "string(-0.25)": "-0.25", "string(1000)": "1000", "string(3 - 3)": "0"} {
		if got := eval(ex); got != interface{}(want) {
			t.Errorf("%s: got %v want %v", ex, got, want)
		}
	}
}

func TestProbe_strings(t *testing.T) {
	root := wdoc(`<r><s>hello world</s><s>abc</s><w>  a  b   c </w><e/><u>MiXed</u></r>`)
	eval := func(ex string) interface{} {
		e, err := Compile(ex)
		if err != nil {
			t.Fatalf("%s: %v", ex, err)
		}
		var v interface{}
		func() {
			defer func() {
				if r := recover(); r != nil {
					v = fmt.Sprint("panic: ", r)
				}
			}()
			v = e.Evaluate(&TNodeNavigator{curr: root, root: root, attr: -1})
		}()
		return v
	}
	xround := func(f float64) float64 {
		if math.IsNaN(f) || math.IsInf(f, 0) {
			return f
		}
		return math.Floor(f + 0.5)
	}
	substr := func(s string, st, ln float64, hasLen bool) string {
		var sb strings.Builder
		for p := 1; p <= len(s); p++ {
			fp := float64(p)
			if !(fp >= xround(st)) {
				continue
			}
			if hasLen && !(fp < xround(st)+xround(ln)) {
				continue
			}
			sb.WriteByte(s[p-1])
		}
		return sb.String()
	}
	nums := []struct {
		src string
		v   float64
	}{{"0", 0}, {"1", 1}, {"2", 2}, {"3", 3}, {"5", 5}, {"12", 12}, {"-1", -1}, {"-2.5", -2.5}, {"-0.5", -0.5}, {"0.5", 0.5}, {"1.5", 1.5}, {"2.5", 2.5}, {"2.4", 2.4}, {"100", 100}, {"number('x')", math.NaN()}, {"1 div 0", math.Inf(1)}, {"-1 div 0", math.Inf(-1)}, {"1.49", 1.49}, {"-41.5", -41.5}, {"41.5", 41.5}}
	strs := []struct{ src, v string }{{"'12345'", "12345"}, {"'hello world'", "hello world"}, {"''", ""}, {"'a'", "a"}, {"//s", "hello world"}, {"//s[2]", "abc"}, {"//e", ""}}
	bad := 0
	fail := func(f string, a ...interface{}) {
		if bad < 40 {
			t.Errorf(f, a...)
		}
		bad++
	}
	for _, s := range strs {
		for _, a := range nums {
			ex := fmt.Sprintf("substring(%s, %s)", s.src, a.src)
			if got := eval(ex); got != interface{}(substr(s.v, a.v, 0, false)) {
				fail("%s: got %q want %q", ex, got, substr(s.v, a.v, 0, false))
			}
			for _, b := range nums {
				ex := fmt.Sprintf("substring(%s, %s, %s)", s.src, a.src, b.src)
				if got := eval(ex); got != interface{}(substr(s.v, a.v, b.v, true)) {
					fail("%s: got %q want %q", ex, got, substr(s.v, a.v, b.v, true))
				}
			}
		}
		for _, u := range strs {
			for _, c := range []struct {
				f string
				w interface{}
			}{
				{"contains", strings.Contains(s.v, u.v)}, {"starts-with", strings.HasPrefix(s.v, u.v)}, {"ends-with", strings.HasSuffix(s.v, u.v)},
				{"concat", s.v + u.v},
				{"substring-before", func() string {
					if i := strings.Index(s.v, u.v); i >= 0 {
						return s.v[:i]
					}
					return ""
				}()},
				{"substring-after", func() string {
					if i := strings.Index(s.v, u.v); i >= 0 {
						return s.v[i+len(u.v):]
					}
					return ""
				}()},
			} {
				if strings.HasPrefix(u.src, "//") && c.f != "concat" && !strings.HasPrefix(c.f, "substring") {
					continue // second argument must be a string for these in this implementation
				}
				ex := fmt.Sprintf("%s(%s, %s)", c.f, s.src, u.src)
				if got := eval(ex); got != c.w {
					fail("%s: got %v want %v", ex, got, c.w)
				}
			}
		}
		if got := eval("string-length(" + s.src + ")"); got != interface{}(float64(len(s.v))) {
			fail("string-length(%s): got %v", s.src, got)
		}
		if got := eval("string(" + s.src + ")"); got != interface{}(s.v) {
			fail("string(%s): got %v", s.src, got)
		}
	}
	for ex, want := range map[string]interface{}{
		"normalize-space('  a  b   c ')": "a b c", "normalize-space(//w)": "a b c", "normalize-space('')": "", "normalize-space('abc')": "abc", "normalize-space(' \t\n x \r\n')": "x",
		"translate('bar','abc','ABC')": "BAr", "translate('--aaa--','abc-','ABC')": "AAA", "translate('abc','','x')": "abc", "translate('aab','aa','xy')": "xxb", "translate(//s[2],'abc','xyz')": "xyz",
		"lower-case('MiXed')": "mixed", "lower-case(//u)": "mixed", "string-join(//s, ',')": "hello world,abc", "string-join(//zz, ',')": "", "string-join(//s, '')": "hello worldabc",
		"concat('a','b','c')": "abc", "concat(//s[2], '-', //s)": "abc-hello world", "concat('', '')": "", "string(//zz)": "", "string(true())": "true", "string(false())": "false", "string('x')": "x",
		"substring-before('a=b=c','=')": "a", "substring-after('a=b=c','=')": "b=c", "substring-before('abc','')": "", "substring-after('abc','')": "abc", "starts-with('abc','')": true, "contains('abc','')": true, "ends-with('abc','')": true,
	} {
		if got := eval(ex); got != want {
			fail("%s: got %v want %v", ex, got, want)
		}
	}
}

func TestProbe_damage(t *testing.T) {
	valid := []string{"//a[b]/c", "count(//a)", "a[@x='1']", "(a | b)[2]", "concat('a', \"b\", c)", "a/b//c", "substring(a, 1, 2)", "child::a[position()=last()]", "//a[b[c]]", "a and b or c", "1 + 2 * 3", "-a", "a = 'x'", "string-length(name(.))", "ancestor-or-self::p:q", "//*[contains(@class, 'x')]", "not(a) and (b or c)", "a[1][2]", "translate(a,'b','c')", "/"}
	mustFail := func(s, why string) {
		e, err := func() (e *Expr, err error) {
			defer func() {
				if r := recover(); r != nil {
					err = fmt.Errorf("panic %v", r)
				}
			}()
			return CompileWithNS(s, map[string]string{"p": "u"})
		}()
		if err == nil && e != nil {
			t.Errorf("%s: Compile(%q) succeeded", why, s)
		}
	}
	for _, v := range valid {
		if _, err := CompileWithNS(v, map[string]string{"p": "u"}); err != nil {
			t.Fatalf("%q does not compile: %v", v, err)
		}
		for i := 0; i < len(v); i++ {
			switch v[i] {
			case ']', ')', '\'', '"':
				mustFail(v[:i]+v[i+1:], "closing delimiter deleted")
			}
			// cut off right after an operator, slash, opening bracket/parenthesis/quote, comma
			switch v[i] {
			case '/', '[', '(', '\'', '"', ',', '=', '+', '*', '|', '-':
				cut := v[:i+1]
				if cut == "/" || (v[i] == '*' && i > 0 && (v[i-1] == '/' || v[i-1] == ':')) || (v[i] == '-' && i > 0 && v[i-1] != ' ' && i > 0 && v[i-1] >= 'a' && v[i-1] <= 'z') {
					continue // "/" and a name test "*" are complete expressions
				}
				if (v[i] == '\'' || v[i] == '"') && strings.Count(cut, string(v[i]))%2 == 0 {
					continue // that was a closing quote
				}
				mustFail(cut, "cut off inside a construct")
			}
		}
	}
	for _, s := range []string{"a and", "a or", "a div", "a mod", "a <", "a !=", "a >=", "a/b/", "a//", "a[", "f(", "count(//a", "nosuchfunction(a)", "count()", "substring(a)", "contains(a)", "concat(a)", "not()", "nosuchaxis::a", "child::", "a:", ":a", "a::b", "p:", "starts-with('a')", "translate(a,b)", "p::a", "q:a"} {
		mustFail(s, "ill-formed")
	}
}

func TestProbe_syntax(t *testing.T) {
	root := wdoc(`<r><a x="1" y="2"><b i="1">4<g/>t</b><c/></a><d z="3"/><b i="5">7</b><a><b i="2"/><b w="1" i="3"/></a><a/></r>`)
	render := func(ex string) string {
		e, err := Compile(ex)
		if err != nil {
			return "error: " + err.Error()
		}
		var out string
		func() {
			defer func() {
				if r := recover(); r != nil {
					out = fmt.Sprint("panic: ", r)
				}
			}()
			v := e.Evaluate(&TNodeNavigator{curr: root.FirstChild, root: root, attr: -1})
			if it, ok := v.(*NodeIterator); ok {
				set := map[string]bool{}
				for k := 0; it.MoveNext() && k < 1000; k++ {
					cur := it.Current().(*TNodeNavigator)
					set[fmt.Sprintf("%p/%d", cur.curr, cur.attr)] = true
				}
				var keys []string
				for k := range set {
					keys = append(keys, k)
				}
				sort.Strings(keys)
				out = strings.Join(keys, " ")
			} else {
				out = fmt.Sprint(v)
			}
		}()
		return out
	}
	pairs := [][2]string{
		{"1 or 0 and 0", "1 or (0 and 0)"}, {"0 and 0 or 1", "(0 and 0) or 1"}, {"1 = 1 and 2 = 3", "(1 = 1) and (2 = 3)"}, {"1 < 2 = 1 < 2", "(1 < 2) = (1 < 2)"}, {"3 > 2 > 1", "(3 > 2) > 1"},
		{"1 + 2 < 2 + 2", "(1 + 2) < (2 + 2)"}, {"1 + 2 * 3", "1 + (2 * 3)"}, {"10 - 4 - 3", "(10 - 4) - 3"}, {"100 div 10 div 5", "(100 div 10) div 5"}, {"7 mod 4 * 2", "(7 mod 4) * 2"}, {"2 * 3 mod 4", "(2 * 3) mod 4"},
		{"- 2 * 3", "(-2) * 3"}, {"1 - - 2", "1 - (-2)"}, {"-a/b", "-(a/b)"}, {"a | b/c", "a | (b/c)"}, {"count(a | b | d)", "count((a | b) | d)"}, {"a/b | d", "(a/b) | d"}, {"1 = 2 != 1", "(1 = 2) != 1"}, {"1 != 2 = 1", "(1 != 2) = 1"},
		{"2 * -1", "2 * (-1)"}, {"8 div 2 * 4", "(8 div 2) * 4"}, {"1 < 2 < 3 < 0", "((1 < 2) < 3) < 0"}, {"6 - 3 + 2", "(6 - 3) + 2"}, {"b/@i > 1 and b/@i < 5 or c", "((b/@i > 1) and (b/@i < 5)) or c"},
		// abbreviations
		{"a", "child::a"}, {"@x", "attribute::x"}, {".", "self::node()"}, {"..", "parent::node()"}, {"a//b", "a/descendant-or-self::node()/child::b"}, {"//b", "/descendant-or-self::node()/child::b"}, {".//b", "self::node()/descendant-or-self::node()/child::b"}, {"../a", "parent::node()/child::a"}, {"a/@x", "child::a/attribute::x"}, {"*", "child::*"}, {"@*", "attribute::*"}, {"a[1]", "child::a[position()=1]"}, {"text()", "child::text()"}, {"a/..", "child::a/parent::node()"}, {"//@i", "/descendant-or-self::node()/attribute::i"},
	}
	for _, p := range pairs {
		if a, b := render(p[0]), render(p[1]); a != b {
			t.Errorf("%q gives %q but %q gives %q", p[0], a, p[1], b)
		}
	}
	// optional whitespace
	toks := [][]string{
		{"a", "/", "b", "[", "@i", ">", "1", "]"}, {"count", "(", "//", "b", ")", "+", "1"}, {"a", "|", "d", "|", "b"}, {"//", "b", "[", "position", "(", ")", "=", "last", "(", ")", "]"}, {"child", "::", "a", "/", "attribute", "::", "x"},
		{"concat", "(", "'a b'", ",", "\" c\"", ",", "string", "(", "@x", ")", ")"}, {"-", "1", "+", "2"}, {"a", "[", "b", "]", "[", "1", "]"}, {"1", "<=", "2", "and", "3", ">=", "2", "or", "0", "!=", "0"}, {"..", "/", "a", "//", "b"}, {"(", "a", "|", "b", ")", "[", "2", "]"}, {"2", "*", "3", "div", "4", "mod", "5"}, {"b", "/", "@i", "=", "'1'"}, {"a", "/", "*", "[", "1", "]"}, {"4", "div", "2"},
	}
	needsSpace := func(x, y string) bool {
		word := func(s string) bool {
			c := s[len(s)-1]
			return c >= 'a' && c <= 'z' || c >= '0' && c <= '9' || c == '*' || c == '.'
		}
		first := y[0]
		return word(x) && (first >= 'a' && first <= 'z' || first >= '0' && first <= '9' || first == '.' || first == '*' || first == '-') || x == "-" && y == "-"
	}
	for _, tk := range toks {
		var tight, loose strings.Builder
		for i, x := range tk {
			if i > 0 && needsSpace(tk[i-1], x) {
				tight.WriteByte(' ')
			}
			tight.WriteString(x)
			loose.WriteString(" \t\n\r ")
			loose.WriteString(x)
		}
		loose.WriteString("  ")
		if a, b := render(tight.String()), render(loose.String()); a != b || strings.HasPrefix(a, "error") {
			t.Errorf("%q gives %q, %q gives %q", tight.String(), a, loose.String(), b)
		}
	}
}

func TestProbe_names(t *testing.T) {
	root := createNode("", RootNode)
	r := root.createChildNode("r", ElementNode)
	a := r.createChildNode("a", ElementNode)
	a.Prefix, a.NamespaceURL = "p", "urn:one"
	a2 := r.createChildNode("a", ElementNode)
	a2.Prefix, a2.NamespaceURL = "q", "urn:two"
	a3 := r.createChildNode("a", ElementNode)
	b := r.createChildNode("b", ElementNode)
	b.Prefix, b.NamespaceURL = "p", "urn:one"
	r.createChildNode("text", TextNode)
	r.createChildNode("cmt", CommentNode)
	a3.addAttribute("x", "1")
	ns := map[string]string{"n1": "urn:one", "n2": "urn:two", "p": "urn:two"}
	count := func(ex string) float64 {
		e, err := CompileWithNS("count("+ex+")", ns)
		if err != nil {
			t.Fatalf("%s: %v", ex, err)
		}
		v, _ := e.Evaluate(&TNodeNavigator{curr: root, root: root, attr: -1}).(float64)
		return v
	}
	for ex, want := range map[string]float64{
		"/r/a": 1, "/r/*": 4, "/r/n1:a": 1, "/r/n2:a": 1, "/r/p:a": 1, "/r/n1:*": 2, "/r/n2:*": 1, "/r/node()": 6, "/r/text()": 1, "/r/comment()": 1, "/r/b": 0, "/r/n1:b": 1, "/r/n2:b": 0, "/r/a/@x": 1, "/r/a/@*": 1, "/r/a/@n1:x": 0, "//*": 5, "/r/self::r": 1, "/r/self::n1:r": 0, "/r/a[@x]": 1, "/r/n1:*[1]": 1, "/r/*[n1:* or 1]": 4,
	} {
		if got := count(ex); got != want {
			t.Errorf("count(%s) = %v, want %v", ex, got, want)
		}
	}
	str := func(ex string, ctx *TNode, attr int) interface{} {
		e, err := CompileWithNS(ex, ns)
		if err != nil {
			t.Fatalf("%s: %v", ex, err)
		}
		return e.Evaluate(&TNodeNavigator{curr: ctx, root: root, attr: attr})
	}
	for _, c := range []struct {
		ex   string
		n    *TNode
		attr int
		want string
	}{
		{"name()", a, -1, "p:a"}, {"local-name()", a, -1, "a"}, {"namespace-uri()", a, -1, "urn:one"}, {"name()", a3, -1, "a"}, {"namespace-uri()", a3, -1, ""}, {"name()", a3, 0, "x"}, {"local-name()", a3, 0, "x"},
		{"name(/r/*[2])", root, -1, "q:a"}, {"local-name(/r/*[4])", root, -1, "b"}, {"namespace-uri(/r/*[4])", root, -1, "urn:one"}, {"name(/r/zz)", root, -1, ""}, {"local-name(/r/zz)", root, -1, ""}, {"namespace-uri(/r/zz)", root, -1, ""}, {"name(/r/*)", root, -1, "p:a"}, {"name(/r/a/@x)", root, -1, "x"},
	} {
		if got := str(c.ex, c.n, c.attr); got != interface{}(c.want) {
			t.Errorf("%s at %s/%d: got %v want %q", c.ex, c.n.Data, c.attr, got, c.want)
		}
	}
	if _, err := CompileWithNS("/r/zz:a", ns); err == nil {
		t.Errorf("unbound prefix zz accepted")
	}
}

func TestProbe_regex(t *testing.T) {
	root := wdoc(`<r><s>hello world</s><s>abc123</s><e/></r>`)
	eval := func(ex string) interface{} {
		e, err := Compile(ex)
		if err != nil {
			return "compile error: " + err.Error()
		}
		var v interface{}
		func() {
			defer func() {
				if r := recover(); r != nil {
					v = fmt.Sprint("panic: ", r)
				}
			}()
			v = e.Evaluate(&TNodeNavigator{curr: root, root: root, attr: -1})
		}()
		return v
	}
	strs := map[string]string{"'hello world'": "hello world", "'abc123'": "abc123", "''": "", "//s": "hello world", "//s[2]": "abc123", "//e": "", "//zz": ""}
	pats := []string{"o w", "^h", "d$", "[0-9]+", "x*", "^$", "(l+)o", "a|b", ".", "^.*$", "\\d", "h(e)(l)"}
	for src, s := range strs {
		for _, p := range pats {
			want := regexp.MustCompile(p).MatchString(s)
			ex := fmt.Sprintf("matches(%s, '%s')", src, p)
			if got := eval(ex); got != interface{}(want) {
				t.Errorf("%s: got %v (%T) want %v", ex, got, got, want)
			}
			for _, rep := range []string{"X", "[$1]", "$0-", "", "$2$1"} {
				want := regexp.MustCompile(p).ReplaceAllString(s, regexp.MustCompile(`\$(\d+)`).ReplaceAllString(rep, "${$1}"))
				ex := fmt.Sprintf("replace(%s, '%s', '%s')", src, p, rep)
				if got := eval(ex); got != interface{}(want) {
					t.Errorf("%s: got %q want %q", ex, got, want)
				}
			}
		}
	}
	for _, bad := range []string{"matches('a', '(')", "replace('a', '[', 'x')", "//s[matches(., '*')]"} {
		if _, err := Compile(bad); err == nil {
			t.Errorf("%s: constant pattern that does not compile was accepted", bad)
		}
	}
}

func TestProbe_concurrent(t *testing.T) {
	root := wdoc(`<r><a x="1" y="2"><b i="1">4<g/>t</b><c/></a><d z="3"/><b i="5">7</b><a><b i="2"/><b w="1" i="3"/></a><a/></r>`)
	exprs := []string{"//b", "//a[b]", "//b[1]", "(//b)[2]", "//a | //b", "//b/following::*", "//b/ancestor::*", "count(//b)", "sum(//@i)", "string-join(//b/@i, ',')", "//b[matches(@i, '^[0-9]$')]", "replace(string(//b/@i), '1', 'x')", "normalize-space(//b)", "concat(//b/@i, 'x')", "//a[count(b)>1]", "reverse(//b)", "//b = //c", "substring('12345', 2, 3)", "translate(//a/@x, '1', 'z')", "//r | //a"}
	var compiled []*Expr
	var want []string
	render := func(v interface{}) string {
		if it, ok := v.(*NodeIterator); ok {
			n := 0
			for it.MoveNext() && n < 1000 {
				n++
			}
			return fmt.Sprint("nodes:", n)
		}
		return fmt.Sprint(v)
	}
	for _, ex := range exprs {
		e := MustCompile(ex)
		compiled = append(compiled, e)
		want = append(want, render(e.Evaluate(&TNodeNavigator{curr: root, root: root, attr: -1})))
	}
	var wg sync.WaitGroup
	errs := make(chan string, 100)
	for g := 0; g < 16; g++ {
		wg.Add(1)
		go func(g int) {
			defer wg.Done()
			for r := 0; r < 200; r++ {
				i := (g + r) % len(compiled)
				got := render(compiled[i].Evaluate(&TNodeNavigator{curr: root, root: root, attr: -1}))
				if got != want[i] {
					select {
					case errs <- fmt.Sprintf("%s: got %s want %s", exprs[i], got, want[i]):
					default:
					}
				}
				if r%10 == 0 {
					if _, err := Compile(exprs[(i+3)%len(exprs)]); err != nil {
						errs <- err.Error()
					}
				}
			}
		}(g)
	}
	wg.Wait()
	close(errs)
	for e := range errs {
		t.Error(e)
	}
}

func TestProbe_iteratorProtocol(t *testing.T) {
	root := wdoc(`<r><a x="1" y="2"><b i="1">4<g/>t</b><c/></a><d z="3"/><b i="5">7</b><a><b i="2"/><b w="1" i="3"/></a><a/></r>`)
	exprs := []string{"//b", "//a[b]", "//b[1]", "(//b)[2]", "//a | //b", "//b/following::*", "//b/preceding::*", "//b/ancestor::*", "/r/*", "/r/a/b", "//@*", "//node()", "/r/a/@x", "//zz", "/", ".", "..", "//a/b[2]", "//b/..", "/r/*[position()>2]", "//a[2]//b", "(//a | //d)", "//b[@i>1]", "*/*", "//text()"}
	nav := func() *TNodeNavigator { return &TNodeNavigator{curr: root, root: root, attr: -1} }
	for _, ex := range exprs {
		e := MustCompile(ex)
		var seq []pnode
		it := e.Select(nav())
		for k := 0; it.MoveNext() && k < 1000; k++ {
			cur := it.Current().(*TNodeNavigator)
			seq = append(seq, pnode{cur.curr, cur.attr})
		}
		for k := 0; k < 3; k++ {
			if it.MoveNext() {
				t.Errorf("%s: MoveNext returned true after false", ex)
			}
		}
		ev, ok := e.Evaluate(nav()).(*NodeIterator)
		if !ok {
			t.Errorf("%s: Evaluate did not return an iterator", ex)
			continue
		}
		var seq2 []pnode
		for k := 0; ev.MoveNext() && k < 1000; k++ {
			cur := ev.Current().(*TNodeNavigator)
			seq2 = append(seq2, pnode{cur.curr, cur.attr})
		}
		if fmt.Sprint(seq) != fmt.Sprint(seq2) {
			t.Errorf("%s: Evaluate iterates %d nodes, Select %d (or another order)", ex, len(seq2), len(seq))
		}
		if c, _ := MustCompile("count(" + ex + ")").Evaluate(nav()).(float64); int(c) != len(seq) {
			t.Errorf("count(%s) = %v, the sequence has %d nodes", ex, c, len(seq))
		}
		var rev []pnode
		rit := MustCompile("reverse(" + ex + ")").Select(nav())
		for k := 0; rit.MoveNext() && k < 1000; k++ {
			cur := rit.Current().(*TNodeNavigator)
			rev = append(rev, pnode{cur.curr, cur.attr})
		}
		okRev := len(rev) == len(seq)
		for i := range rev {
			if okRev && rev[i] != seq[len(seq)-1-i] {
				okRev = false
			}
		}
		if !okRev {
			t.Errorf("reverse(%s): not the reversed sequence (%d vs %d nodes)", ex, len(rev), len(seq))
		}
	}
}

func TestProbe_slashSlash(t *testing.T) {
	root := wdoc(`<r><a x="1"><b i="1"/><c><b i="9"/></c><b i="2"/></a><b i="5"/><a><b i="3"/><a><b i="4"/></a></a></r>`)
	set := func(ex string, c *TNode) string {
		e, err := Compile(ex)
		if err != nil {
			return "error " + err.Error()
		}
		m := map[string]bool{}
		it := e.Select(&TNodeNavigator{curr: c, root: root, attr: -1})
		for k := 0; it.MoveNext() && k < 1000; k++ {
			cur := it.Current().(*TNodeNavigator)
			m[fmt.Sprintf("%p/%d", cur.curr, cur.attr)] = true
		}
		var keys []string
		for k := range m {
			keys = append(keys, k)
		}
		sort.Strings(keys)
		return strings.Join(keys, " ")
	}
	pairs := [][2]string{
		{"//b", "/descendant-or-self::node()/child::b"}, {"//b[1]", "/descendant-or-self::node()/child::b[1]"}, {"//a//b", "/descendant-or-self::node()/child::a/descendant-or-self::node()/child::b"},
		{"//a/b[2]", "/descendant-or-self::node()/child::a/child::b[2]"}, {".//b", "self::node()/descendant-or-self::node()/child::b"}, {"a//b[@i>1]", "child::a/descendant-or-self::node()/child::b[@i>1]"},
		{"//b[last()]", "/descendant-or-self::node()/child::b[last()]"}, {"//*[b]", "/descendant-or-self::node()/child::*[child::b]"}, {"//a[.//b[@i=4]]", "/descendant-or-self::node()/child::a[self::node()/descendant-or-self::node()/child::b[@i=4]]"},
		{"//c//b", "/descendant-or-self::node()/child::c/descendant-or-self::node()/child::b"}, {"//@i", "/descendant-or-self::node()/attribute::i"}, {"//a/..", "/descendant-or-self::node()/child::a/parent::node()"},
		{"//b/following-sibling::*", "/descendant-or-self::node()/child::b/following-sibling::*"}, {"//a//a//b", "/descendant-or-self::node()/child::a/descendant-or-self::node()/child::a/descendant-or-self::node()/child::b"},
		{"//b[2]", "/descendant-or-self::node()/child::b[2]"}, {"//a[2]", "/descendant-or-self::node()/child::a[2]"}, {"//a[1]//b[1]", "/descendant-or-self::node()/child::a[1]/descendant-or-self::node()/child::b[1]"},
		{"descendant::b", "descendant-or-self::node()/child::b"}, {"//node()", "/descendant-or-self::node()/child::node()"}, {"//text()", "/descendant-or-self::node()/child::text()"},
	}
	for _, c := range []*TNode{root, root.FirstChild, root.FirstChild.FirstChild} {
		for _, p := range pairs {
			if a, b := set(p[0], c), set(p[1], c); a != b {
				t.Errorf("at %s: %q selects %d nodes, its expansion %q %d", c.Data, p[0], len(strings.Fields(a)), p[1], len(strings.Fields(b)))
			}
		}
	}
}
