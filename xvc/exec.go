package main

// Symbolic execution of go/ssa functions into verification conditions.

import (
	"fmt"
	"go/constant"
	"go/token"
	"go/types"
	"sort"
	"strings"

	"golang.org/x/tools/go/ssa"
)

type Obligation struct {
	Name   string // <fn>/<kind>/<site>
	Fn     string
	Kind   string
	Site   string
	Props  []string
	Query  string // SMT-LIB text ("" when trivially true); sliced to the facts connected to the goal
	QueryFull string // all facts of the path (used when the sliced query is not refuted)
	Trivial bool
	Pos    token.Position
	Trail  []string
	Cover  bool // must be satisfiable
	// results
	Status  string // unsat sat unknown timeout trivial error
	Solver  string
	Time    float64
	Model   string
	Detail  string
	Instance int
}

type Exec struct {
	p        *Program
	root     *ssa.Function
	rootName string
	fnc      *FuncContract
	mode     string
	nfresh   int
	sink     func(*Obligation)
	paths    int
	maxPaths int
	capped   bool
	unsup    map[string]bool
	labels   map[*ssa.Function]map[ssa.Instruction]string
	loops    map[*ssa.Function]*loopInfo
	instances map[string]int
	callFnSelf Val // the function value being called through a field (fnself at the call site)
	thisFn     T // identity of the closure under verification (fnself in field contracts)
	needTheory bool
	inlineDepth int
	tier     string
	sweep    bool // emit implicit safety obligations
	assumed  map[string]bool // assumptions used (for evidence)
	coverDone bool
	coverN    int
	rootLets map[string]Val
	joins    []*joinCollector
	ipdoms   map[*ssa.Function]map[*ssa.BasicBlock]*ssa.BasicBlock
	noMerge  bool
	prop     string // property being checked
}

type cont func(s *State, results []Val)

func (x *Exec) intSort() Sort {
	if x.mode == "int" {
		return SInt
	}
	return SBV64
}

func (x *Exec) prelude() string {
	p := strings.ReplaceAll(preludeCore, "INTSORT", string(x.intSort()))
	p += "(define-fun dyntag ((x Iface)) Int (ite ((_ is iref) x) (itag x) (ite ((_ is iflt) x) (ftag x) (ite ((_ is istr) x) (stag x) (ite ((_ is ibool) x) (btag x) (ite ((_ is iint) x) (ntag x) 0))))))\n"
	p += "(declare-fun str.sub_ (Str " + string(x.intSort()) + " " + string(x.intSort()) + ") Str)\n"
	p += "(declare-fun str.cat_ (Str Str) Str)\n(declare-fun str.lt_ (Str Str) Bool)\n"
	p += "(declare-fun str.at_ (Str " + string(x.intSort()) + ") " + string(x.byteSort()) + ")\n"
	if x.p.Theory != nil {
		p += strings.ReplaceAll(x.p.Theory.Decls, "INTSORT", string(x.intSort()))
	}
	p += x.p.implFacts()
	if x.needTheory && x.p.Theory != nil {
		p += strings.ReplaceAll(x.p.Theory.Axioms, "INTSORT", string(x.intSort()))
	}
	return p
}

func (x *Exec) byteSort() Sort {
	if x.mode == "int" {
		return SInt
	}
	return SBV8
}

// ---------------------------------------------------------------- types

func isInt(t types.Type) bool {
	b, ok := t.Underlying().(*types.Basic)
	return ok && b.Info()&types.IsInteger != 0
}
func isUnsigned(t types.Type) bool {
	b, ok := t.Underlying().(*types.Basic)
	return ok && b.Info()&types.IsUnsigned != 0
}
func isFloat(t types.Type) bool {
	b, ok := t.Underlying().(*types.Basic)
	return ok && b.Info()&types.IsFloat != 0
}
func isString(t types.Type) bool {
	b, ok := t.Underlying().(*types.Basic)
	return ok && b.Info()&types.IsString != 0
}
func isBool(t types.Type) bool {
	b, ok := t.Underlying().(*types.Basic)
	return ok && b.Info()&types.IsBoolean != 0
}
func isIface(t types.Type) bool { _, ok := t.Underlying().(*types.Interface); return ok }
func isSlice(t types.Type) bool { _, ok := t.Underlying().(*types.Slice); return ok }

func intBits(t types.Type) int {
	b := t.Underlying().(*types.Basic)
	switch b.Kind() {
	case types.Int8, types.Uint8:
		return 8
	case types.Int16, types.Uint16, types.Int32, types.Uint32:
		return 32
	}
	return 64
}

func (x *Exec) sortOf(t types.Type) Sort {
	if n, ok := t.(*types.Named); ok && n.Obj().Pkg() != nil && n.Obj().Pkg().Path() == "reflect" && n.Obj().Name() == "Value" {
		return SIface
	}
	switch u := t.Underlying().(type) {
	case *types.Basic:
		switch {
		case u.Info()&types.IsBoolean != 0:
			return SBool
		case u.Info()&types.IsInteger != 0:
			if x.mode == "int" {
				return SInt
			}
			switch intBits(t) {
			case 8:
				return SBV8
			case 32:
				return SBV32
			}
			return SBV64
		case u.Info()&types.IsFloat != 0:
			return SFloat
		case u.Info()&types.IsString != 0:
			return SStr
		case u.Kind() == types.UnsafePointer || u.Kind() == types.UntypedNil:
			return SInt
		}
	case *types.Pointer, *types.Map, *types.Chan, *types.Signature:
		return SInt
	case *types.Interface:
		return SIface
	case *types.Struct:
		return SInt // opaque handle (empty structs, sync values)
	case *types.Array:
		return SInt
	}
	return SInt
}

func (x *Exec) intLit(n int64, t types.Type) T {
	s := x.sortOf(t)
	if s == SInt {
		return IntLit(n)
	}
	return BVLit(uint64(n), sortBits(s))
}

func (x *Exec) ilit(n int64) T { // Go int
	if x.mode == "int" {
		return IntLit(n)
	}
	return BVLit(uint64(n), 64)
}

func (x *Exec) zero(s *State, t types.Type) Val {
	if isSlice(t) {
		z := x.ilit(0)
		return Val{K: vSlice, Arr: IntLit(0), Off: z, Len: z, Cap: z, Typ: t}
	}
	if tup, ok := t.(*types.Tuple); ok {
		v := Val{K: vTuple}
		for i := 0; i < tup.Len(); i++ {
			v.Parts = append(v.Parts, x.zero(s, tup.At(i).Type()))
		}
		return v
	}
	so := x.sortOf(t)
	switch so {
	case SBool:
		return scalar(TFalse)
	case SInt:
		return scalar(IntLit(0))
	case SBV64, SBV32, SBV8:
		return scalar(BVLit(0, sortBits(so)))
	case SFloat:
		return scalar(FloatLit(0))
	case SStr:
		return scalar(T{"str.empty", SStr})
	case SIface:
		return scalar(T{"inil", SIface})
	}
	return scalar(IntLit(0))
}

// freshVal makes an unconstrained value of Go type t and assumes its type invariants.
func (x *Exec) freshVal(s *State, prefix string, t types.Type) Val {
	if isSlice(t) {
		is := x.intSort()
		v := Val{K: vSlice, Arr: x.fresh(s, prefix+".arr", SInt), Off: x.fresh(s, prefix+".off", is), Len: x.fresh(s, prefix+".len", is), Cap: x.fresh(s, prefix+".cap", is), Typ: t}
		x.assumeSliceWF(s, v)
		return v
	}
	if tup, ok := t.(*types.Tuple); ok {
		v := Val{K: vTuple}
		for i := 0; i < tup.Len(); i++ {
			v.Parts = append(v.Parts, x.freshVal(s, fmt.Sprintf("%s.%d", prefix, i), tup.At(i).Type()))
		}
		return v
	}
	v := scalar(x.fresh(s, prefix, x.sortOf(t)))
	x.assumeTypeInv(s, v, t)
	return v
}

func (x *Exec) assumeSliceWF(s *State, v Val) {
	z := x.ilit(0)
	big := x.ilit(1 << 40)
	s.assume(And(x.le(z, v.Off), x.le(v.Off, big), x.le(z, v.Len), x.le(v.Len, v.Cap), x.le(v.Cap, big),
		Implies(Eq(v.Arr, IntLit(0)), And(Eq(v.Len, z), Eq(v.Cap, z)))))
	// the backing array of a slice value that exists is an allocated object (so an array allocated
	// later is a different one)
	s.assume(mk(SBool, ">=", v.Arr, IntLit(0)))
	x.assumed["the backing array of a slice value read from memory or returned by a call is an allocated object"] = true
	x.assumeAllocated(s, v.Arr)
}

// assumeTypeInv adds the facts every well-typed Go value of type t satisfies.
func (x *Exec) assumeTypeInv(s *State, v Val, t types.Type) {
	if v.K != vScalar {
		return
	}
	switch u := t.Underlying().(type) {
	case *types.Basic:
		if u.Info()&types.IsInteger != 0 && x.mode == "int" {
			lo, hi := intRange(t)
			s.assume(mk(SBool, "and", mk(SBool, "<=", T{lo, SInt}, v.T), mk(SBool, "<=", v.T, T{hi, SInt})))
		}
	case *types.Pointer:
		s.assume(mk(SBool, ">=", v.T, IntLit(0)))
		x.assumeAllocated(s, v.T)
		x.assumeInv(s, v.T, u.Elem())
	case *types.Map, *types.Signature:
		s.assume(mk(SBool, ">=", v.T, IntLit(0)))
	case *types.Interface:
		x.assumeIfaceInv(s, v.T, t)
	}
}

func intRange(t types.Type) (string, string) {
	if isUnsigned(t) {
		switch intBits(t) {
		case 8:
			return "0", "255"
		case 32:
			return "0", "4294967295"
		}
		return "0", "18446744073709551615"
	}
	switch intBits(t) {
	case 8:
		return "(- 128)", "127"
	case 32:
		return "(- 2147483648)", "2147483647"
	}
	return "(- 9223372036854775808)", "9223372036854775807"
}

func (x *Exec) assumeAllocated(s *State, ref T) {
	al := x.heapSym(s, "alloc", SArray(SInt, SBool))
	s.assume(Or(Eq(ref, IntLit(0)), Select(al, ref, SBool)))
}

// assumeIfaceInv: dynamic type of an interface value implements the static interface;
// pointer payloads are allocated and satisfy their type's invariant.
func (x *Exec) assumeIfaceInv(s *State, v T, t types.Type) {
	it := t.Underlying().(*types.Interface)
	if it.NumMethods() > 0 {
		if _, closed := x.p.closedImpls(t); closed {
			s.assume(Or(Eq(v, T{"inil", SIface}), x.implementsT(v, t)))
		} else {
			s.assume(Or(Eq(v, T{"inil", SIface}), mk(SBool, "impl", mk(SInt, "dyntag", v), IntLit(int64(x.p.iface(t))))))
		}
	}
	s.assume(Implies(mk(SBool, "(_ is iref)", v), mk(SBool, ">=", mk(SInt, "iptr", v), IntLit(0))))
	// no typed-nil package pointers inside interfaces (checked where they are boxed: nonnil-box),
	// and the object they point to exists
	al := x.heapSym(s, "alloc", SArray(SInt, SBool))
	var ptrAlts []T
	for _, ct := range x.p.concrete {
		if _, ok := ct.(*types.Pointer); ok && x.p.isPackageType(ct) {
			if it.NumMethods() > 0 && !types.Implements(ct, it) {
				continue
			}
			ptrAlts = append(ptrAlts, x.isType(v, ct))
		}
	}
	if len(ptrAlts) > 0 {
		// ... and an object has one type: the tag of the interface value is the type of the object
		s.assume(Implies(Or(ptrAlts...), And(Not(Eq(mk(SInt, "iptr", v), IntLit(0))), Select(al, mk(SInt, "iptr", v), SBool),
			Eq(mk(SInt, "objtype", mk(SInt, "iptr", v)), mk(SInt, "itag", v)))))
	}
	if typeStr(t) == "NodeNavigator" {
		// navigator model: a navigator is an object with identity (its position lives in navpos);
		// one that is reachable exists, so a later Copy() is a different object
		s.assume(Implies(Not(Eq(v, T{"inil", SIface})), And(mk(SBool, "(_ is iref)", v), mk(SBool, ">", mk(SInt, "iptr", v), IntLit(0)), Select(al, mk(SInt, "iptr", v), SBool))))
	}
	// values of empty struct types carry no payload
	for _, ct := range x.p.concrete {
		if st, ok := ct.Underlying().(*types.Struct); ok && st.NumFields() == 0 {
			if it.NumMethods() > 0 && !types.Implements(ct, it) {
				continue
			}
			s.assume(Implies(x.isType(v, ct), Eq(mk(SInt, "iptr", v), IntLit(0))))
		}
	}
	// small closed interfaces (parse-tree nodes): the invariant of whichever type is inside
	if impls, closed := x.p.closedImpls(t); closed && len(impls) <= 10 {
		for _, ct := range impls {
			pt, ok := ct.(*types.Pointer)
			if !ok || len(x.p.Ctr.Invs[typeStr(pt.Elem())]) == 0 {
				continue
			}
			ref := mk(SInt, "iptr", v)
			s.assume(Implies(x.isType(v, ct), x.invTerm(s, ref, pt.Elem())))
		}
	}
}

// assumeInv assumes inv(T) for a non-nil pointer to package struct type T.
func (x *Exec) assumeInv(s *State, ref T, elem types.Type) {
	if len(x.p.Ctr.Invs[typeStr(elem)]) == 0 {
		return
	}
	s.assume(Implies(Not(Eq(ref, IntLit(0))), x.invTerm(s, ref, elem)))
}

func (x *Exec) invTerm(s *State, ref T, elem types.Type) T {
	var cs []T
	for _, cl := range x.p.Ctr.Invs[typeStr(elem)] {
		env := &specEnv{x: x, s: s, self: &Val{K: vScalar, T: ref}, selfType: types.NewPointer(elem), where: "inv " + typeStr(elem)}
		t, err := env.evalBool(cl.Expr)
		if err != nil {
			x.unsupported("inv %s: %v", typeStr(elem), err)
			continue
		}
		cs = append(cs, t)
	}
	return And(cs...)
}

func (x *Exec) unsupported(format string, a ...interface{}) {
	if x.unsup == nil {
		x.unsup = map[string]bool{}
	}
	x.unsup[fmt.Sprintf(format, a...)] = true
}

// ---------------------------------------------------------------- integer ops

func (x *Exec) le(a, b T) T {
	if a.Sort == SInt {
		return mk(SBool, "<=", a, b)
	}
	return mk(SBool, "bvsle", a, b)
}
func (x *Exec) lt(a, b T) T {
	if a.Sort == SInt {
		return mk(SBool, "<", a, b)
	}
	return mk(SBool, "bvslt", a, b)
}
func (x *Exec) ule(a, b T) T {
	if a.Sort == SInt {
		return mk(SBool, "<=", a, b)
	}
	return mk(SBool, "bvule", a, b)
}
func (x *Exec) ult(a, b T) T {
	if a.Sort == SInt {
		return mk(SBool, "<", a, b)
	}
	return mk(SBool, "bvult", a, b)
}
func (x *Exec) add(a, b T) T {
	if a.Sort == SInt {
		return mk(SInt, "+", a, b)
	}
	return mk(a.Sort, "bvadd", a, b)
}
func (x *Exec) sub(a, b T) T {
	if a.Sort == SInt {
		return mk(SInt, "-", a, b)
	}
	return mk(a.Sort, "bvsub", a, b)
}

// toInt converts any integer-sorted term to the Go int sort of the mode.
func (x *Exec) toGoInt(a T, signed bool) T {
	if a.Sort == SInt || a.Sort == SBV64 {
		return a
	}
	n := 64 - sortBits(a.Sort)
	if signed {
		return mk(SBV64, fmt.Sprintf("(_ sign_extend %d)", n), a)
	}
	return mk(SBV64, fmt.Sprintf("(_ zero_extend %d)", n), a)
}

func (x *Exec) convInt(a T, from, to types.Type) T {
	ts := x.sortOf(to)
	if a.Sort == SInt {
		return a // int mode: range obligations are emitted by the caller where needed
	}
	fb, tb := sortBits(a.Sort), sortBits(ts)
	switch {
	case fb == tb:
		return a
	case fb < tb:
		if isUnsigned(from) {
			return mk(ts, fmt.Sprintf("(_ zero_extend %d)", tb-fb), a)
		}
		return mk(ts, fmt.Sprintf("(_ sign_extend %d)", tb-fb), a)
	default:
		return mk(ts, fmt.Sprintf("(_ extract %d 0)", tb-1), a)
	}
}

// ---------------------------------------------------------------- heap

func (x *Exec) heapSym(s *State, key string, sort Sort) T {
	if t, ok := s.heap[key]; ok {
		return t
	}
	n := "H!" + sanitize(key) + "!0"
	t := T{n, sort}
	// declare once per state
	s.decls = append(s.decls, "(declare-const "+n+" "+string(sort)+")")
	s.heap[key] = t
	if _, ok := s.heap0[key]; !ok {
		s.heap0[key] = t
	}
	// a location first touched after a wildcard havoc no longer holds its entry value
	if len(s.wildHavoc) > 0 && !x.keyStable(key) && x.wasHavocked(s, key) {
		c := x.fresh(s, "H."+key, sort)
		s.heap[key] = c
		return c
	}
	return t
}

func (x *Exec) wasHavocked(s *State, key string) bool {
	ei := 0
	for _, p := range s.wildHavoc {
		switch p {
		case "*":
			return true
		case "?except":
			f := s.exceptFns[ei]
			ei++
			if !f(key) {
				return true
			}
		default:
			if keyMatches([]string{p}, key) {
				return true
			}
		}
	}
	return false
}

// keyStable: locations that no havoc ever changes.
func (x *Exec) keyStable(key string) bool {
	if strings.HasPrefix(key, "F:") && x.p.immutableField(key) {
		return true
	}
	if strings.HasPrefix(key, "G:") && x.p.constGlobal(key) {
		return true
	}
	if strings.HasPrefix(key, "C@") && x.p.immutableKey(stripSuf(key)) {
		return true
	}
	return false
}

func (x *Exec) heapSet(s *State, key string, t T) {
	x.heapSym(s, key, t.Sort) // make sure heap0 has the entry symbol
	c := x.fresh(s, "H."+key, t.Sort)
	s.facts = append(s.facts, mk(SBool, "=", c, t))
	s.heap[key] = c
}

func (x *Exec) havocKey(s *State, key string) {
	cur, ok := s.heap[key]
	if !ok {
		return // never touched: its entry symbol will be created lazily, unconstrained
	}
	if strings.HasPrefix(key, "F:") && x.p.immutableField(key) {
		// A field that is only ever written while its object is being built keeps its value on
		// every existing object; at indices not yet allocated the array is unconstrained anyway,
		// so leaving the symbol in place is the same as forgetting exactly the new objects.
		return
	}
	n := x.fresh(s, "H."+key, cur.Sort)
	s.heap[key] = n
	if key == "alloc" {
		// allocation only grows
		x.needQuant(s)
		s.facts = append(s.facts, T{fmt.Sprintf("(forall ((r Int)) (! (=> (select %s r) (select %s r)) :pattern ((select %s r))))", cur.S, n.S, cur.S), SBool})
	}
}

func (x *Exec) needQuant(s *State) {}

// havocAll forgets every heap location (unknown callee).
func (x *Exec) havocAll(s *State, except func(key string) bool) {
	if except == nil {
		s.wildHavoc = append(s.wildHavoc, "*")
	} else {
		s.wildHavoc = append(s.wildHavoc, "?except") // resolved lazily: see havocExcept
		s.exceptFns = append(s.exceptFns, except)
	}
	var keys []string
	for k := range s.heap {
		keys = append(keys, k)
	}
	sort.Strings(keys)
	for _, k := range keys {
		if except != nil && except(k) {
			continue
		}
		if strings.HasPrefix(k, "G:") && x.p.constGlobal(k) {
			continue
		}
		if strings.HasPrefix(k, "R:") {
			continue // the position of a range-over-string iterator: no callee can reach it
		}
		if k == "ghost:inpool" {
			continue // whether an object this activation took from the pool has been put back: only Get/Put here change it
		}
		if strings.HasPrefix(k, "C@") {
			base := k
			for _, suf := range []string{"#a", "#o", "#l", "#c"} {
				base = strings.TrimSuffix(base, suf)
			}
			if x.p.immutableKey(base) {
				continue
			}
		}
		x.havocKey(s, k)
	}
}

func fieldKey(st types.Type, i int) (string, types.Type) {
	str := st.Underlying().(*types.Struct)
	f := str.Field(i)
	return "F:" + typeStr(st) + "." + f.Name(), f.Type()
}

func (x *Exec) elemSorts(t types.Type) []struct {
	suf  string
	sort Sort
} {
	type e = struct {
		suf  string
		sort Sort
	}
	if isSlice(t) {
		is := x.intSort()
		return []e{{"#a", SInt}, {"#o", is}, {"#l", is}, {"#c", is}}
	}
	return []e{{"", x.sortOf(t)}}
}

// loadAt reads a value of type t from heap array `key` at index idx.
func (x *Exec) loadAt(s *State, key string, idx T, t types.Type, old bool) Val {
	get := func(k string, so Sort) T {
		arr := x.heapSym(s, k, SArray(idx.Sort, so))
		if old {
			arr = s.heap0[k]
		}
		return Select(arr, idx, so)
	}
	if isSlice(t) {
		is := x.intSort()
		return Val{K: vSlice, Arr: get(key+"#a", SInt), Off: get(key+"#o", is), Len: get(key+"#l", is), Cap: get(key+"#c", is), Typ: t}
	}
	return scalar(get(key, x.sortOf(t)))
}

func (x *Exec) storeAt(s *State, key string, idx T, t types.Type, v Val) {
	set := func(k string, val T) {
		arr := x.heapSym(s, k, SArray(idx.Sort, val.Sort))
		x.heapSet(s, k, Store(arr, idx, val))
	}
	if isSlice(t) {
		if v.K != vSlice {
			x.unsupported("store of non-slice into slice location %s", key)
			return
		}
		set(key+"#a", v.Arr)
		set(key+"#o", v.Off)
		set(key+"#l", v.Len)
		set(key+"#c", v.Cap)
		return
	}
	if v.K != vScalar {
		x.unsupported("store of composite value (kind %d) into %s", v.K, key)
		return
	}
	set(key, v.T)
}

func cellKey(t types.Type) string { return "C:" + typeStr(t) }

func (x *Exec) load(s *State, p Val, elem types.Type, old bool) Val {
	switch p.K {
	case vFieldPtr:
		return x.loadAt(s, p.Key, p.Base, elem, old)
	case vIndexPtr:
		return x.loadElem(s, p.Key, p.Base, p.Idx, elem, old)
	case vGlobalPtr:
		if x.rootName != "init" {
			if c, ok := x.p.globalConst(x, p.Key); ok {
				return scalar(c)
			}
			if f := x.p.globalFunc(p.Key); f != nil {
				return scalar(x.funcRef(s, f))
			}
		}
		if isSlice(elem) {
			is := x.intSort()
			g := func(suf string, so Sort) T {
				t := x.heapSym(s, p.Key+suf, so)
				if old {
					return s.heap0[p.Key+suf]
				}
				return t
			}
			v := Val{K: vSlice, Arr: g("#a", SInt), Off: g("#o", is), Len: g("#l", is), Cap: g("#c", is), Typ: elem}
			return v
		}
		t := x.heapSym(s, p.Key, x.sortOf(elem))
		if old {
			t = s.heap0[p.Key]
		}
		return scalar(t)
	case vScalar:
		if _, isStruct := elem.Underlying().(*types.Struct); isStruct {
			return scalar(p.T) // struct value = its handle
		}
		if p.Key != "" {
			return x.loadAt(s, p.Key, p.T, elem, old)
		}
		return x.loadAt(s, cellKey(elem), p.T, elem, old)
	}
	x.unsupported("load through value kind %d", p.K)
	return x.freshVal(s, "unk", elem)
}

func (x *Exec) loadElem(s *State, key string, base, idx T, elem types.Type, old bool) Val {
	get := func(k string, so Sort) T {
		arr := x.heapSym(s, k, SArray(SInt, SArray(idx.Sort, so)))
		if old {
			arr = s.heap0[k]
		}
		return Select(Select(arr, base, SArray(idx.Sort, so)), idx, so)
	}
	if isSlice(elem) {
		is := x.intSort()
		return Val{K: vSlice, Arr: get(key+"#a", SInt), Off: get(key+"#o", is), Len: get(key+"#l", is), Cap: get(key+"#c", is), Typ: elem}
	}
	return scalar(get(key, x.sortOf(elem)))
}

func (x *Exec) storeElem(s *State, key string, base, idx T, elem types.Type, v Val) {
	set := func(k string, val T) {
		as := SArray(idx.Sort, val.Sort)
		arr := x.heapSym(s, k, SArray(SInt, as))
		inner := Select(arr, base, as)
		x.heapSet(s, k, Store(arr, base, Store(inner, idx, val)))
	}
	if isSlice(elem) {
		set(key+"#a", v.Arr)
		set(key+"#o", v.Off)
		set(key+"#l", v.Len)
		set(key+"#c", v.Cap)
		return
	}
	if v.K != vScalar {
		x.unsupported("store of composite element into %s", key)
		return
	}
	set(key, v.T)
}

func (x *Exec) store(s *State, p Val, elem types.Type, v Val) {
	switch p.K {
	case vFieldPtr:
		x.storeAt(s, p.Key, p.Base, elem, v)
	case vIndexPtr:
		x.storeElem(s, p.Key, p.Base, p.Idx, elem, v)
	case vGlobalPtr:
		if isSlice(elem) {
			x.heapSym(s, p.Key+"#a", SInt)
			x.heapSet(s, p.Key+"#a", v.Arr)
			x.heapSym(s, p.Key+"#o", v.Off.Sort)
			x.heapSet(s, p.Key+"#o", v.Off)
			x.heapSym(s, p.Key+"#l", v.Len.Sort)
			x.heapSet(s, p.Key+"#l", v.Len)
			x.heapSym(s, p.Key+"#c", v.Cap.Sort)
			x.heapSet(s, p.Key+"#c", v.Cap)
			return
		}
		if v.K != vScalar {
			x.unsupported("store composite to global %s", p.Key)
			return
		}
		x.heapSym(s, p.Key, v.T.Sort)
		x.heapSet(s, p.Key, v.T)
	case vScalar:
		if _, isStruct := elem.Underlying().(*types.Struct); isStruct {
			x.unsupported("whole-struct store")
			return
		}
		if p.Key != "" {
			x.storeAt(s, p.Key, p.T, elem, v)
			return
		}
		x.storeAt(s, cellKey(elem), p.T, elem, v)
	default:
		x.unsupported("store through value kind %d", p.K)
	}
}

// alloc returns a fresh non-nil reference distinct from everything allocated before.
func (x *Exec) alloc(s *State, prefix string) T {
	r := x.fresh(s, prefix, SInt)
	al := x.heapSym(s, "alloc", SArray(SInt, SBool))
	s.assume(And(mk(SBool, ">", r, IntLit(0)), Not(Select(al, r, SBool))))
	x.heapSet(s, "alloc", Store(al, r, TTrue))
	s.fresh = append(s.fresh, r)
	return r
}

func (x *Exec) zeroStruct(s *State, ref T, st types.Type) {
	str, ok := st.Underlying().(*types.Struct)
	if !ok {
		return
	}
	for i := 0; i < str.NumFields(); i++ {
		key, ft := fieldKey(st, i)
		if _, nested := ft.Underlying().(*types.Struct); nested {
			continue
		}
		x.storeAt(s, key, ref, ft, x.zero(s, ft))
	}
}

// ---------------------------------------------------------------- strings

func (x *Exec) strLit(s *State, v string) T {
	if v == "" {
		return T{"str.empty", SStr}
	}
	if t, ok := s.lits[v]; ok {
		return t
	}
	n := x.freshName("lit")
	t := T{n, SStr}
	s.decls = append(s.decls, "(declare-const "+n+" Str) ; "+strings.ReplaceAll(fmt.Sprintf("%q", trunc(v, 60)), "\n", " "))
	s.lits[v] = t
	s.facts = append(s.facts, Eq(x.strLenRaw(t), x.ilit(int64(len(v)))), Not(Eq(t, T{"str.empty", SStr})))
	return t
}

func trunc(s string, n int) string {
	if len(s) > n {
		return s[:n] + "..."
	}
	return s
}

func (x *Exec) strLenRaw(t T) T { return mk(x.intSort(), "str.len_", t) }

func (x *Exec) strLen(s *State, t T) T {
	l := x.strLenRaw(t)
	z := x.ilit(0)
	s.assume(And(x.le(z, l), x.le(l, x.ilit(1<<40)), mk(SBool, "=", Eq(l, z), Eq(t, T{"str.empty", SStr}))))
	return l
}

// ---------------------------------------------------------------- entry point

func (x *Exec) valueOf(s *State, v ssa.Value) Val {
	fr := s.top()
	switch v := v.(type) {
	case *ssa.Const:
		return x.constVal(s, v)
	case *ssa.Global:
		return Val{K: vGlobalPtr, Key: "G:" + v.Name(), Typ: v.Type().(*types.Pointer).Elem()}
	case *ssa.Function:
		return scalar(x.funcRef(s, v))
	case *ssa.Builtin:
		return Val{K: vNone}
	}
	if val, ok := fr.env[v]; ok {
		return val
	}
	x.unsupported("%s: use of undefined value %s (%T)", x.p.Names[fr.fn], v.Name(), v)
	val := x.freshVal(s, "undef", v.Type())
	fr.env[v] = val
	return val
}

func (x *Exec) funcRef(s *State, f *ssa.Function) T {
	name := x.p.Names[f]
	if name == "" {
		name = f.String()
	}
	c := T{"fn!" + sanitize(name), SInt}
	decl := "(declare-const " + c.S + " Int)"
	for _, d := range s.decls {
		if d == decl {
			return c
		}
	}
	s.decls = append(s.decls, decl)
	id := x.p.fnID(f)
	s.facts = append(s.facts, mk(SBool, ">", c, IntLit(0)), Eq(mk(SInt, "fnid", c), IntLit(int64(id))))
	return c
}

func constIntVal(c *ssa.Const) (int64, bool) {
	if c.Value == nil {
		return 0, true
	}
	if i, ok := constant.Int64Val(c.Value); ok {
		return i, true
	}
	if u, ok := constant.Uint64Val(c.Value); ok {
		return int64(u), true
	}
	return 0, false
}

func (x *Exec) constVal(s *State, c *ssa.Const) Val {
	t := c.Type()
	if c.Value == nil {
		return x.zero(s, t)
	}
	switch {
	case isBool(t):
		return scalar(Bool(constant.BoolVal(c.Value)))
	case isInt(t):
		if isUnsigned(t) {
			u, _ := constant.Uint64Val(c.Value)
			if x.mode == "int" {
				return scalar(T{fmt.Sprint(u), SInt})
			}
			return scalar(BVLit(u, sortBits(x.sortOf(t))))
		}
		n, _ := constant.Int64Val(c.Value)
		return scalar(x.intLit(n, t))
	case isFloat(t):
		f, _ := constant.Float64Val(c.Value)
		return scalar(FloatLit(f))
	case isString(t):
		return scalar(x.strLit(s, constant.StringVal(c.Value)))
	}
	x.unsupported("constant of type %s", t)
	return x.freshVal(s, "const", t)
}

func (x *Exec) setVal(s *State, v ssa.Value, val Val) {
	s.top().env[v] = val
}

func (x *Exec) label(in ssa.Instruction) string {
	f := in.Parent()
	m := x.labels[f]
	if m == nil {
		m = computeLabels(f)
		if x.labels == nil {
			x.labels = map[*ssa.Function]map[ssa.Instruction]string{}
		}
		x.labels[f] = m
	}
	return m[in]
}

func instrDesc(in ssa.Instruction) string {
	switch in := in.(type) {
	case ssa.CallInstruction:
		c := in.Common()
		if c.IsInvoke() {
			return c.Method.Name()
		}
		if sc := c.StaticCallee(); sc != nil {
			n := sc.Name()
			if sc.Signature.Recv() != nil {
				n = strings.TrimPrefix(typeStr(sc.Signature.Recv().Type()), "*") + "." + n
			}
			return n
		}
		if b, ok := c.Value.(*ssa.Builtin); ok {
			return b.Name()
		}
		return "call(" + valueDesc(c.Value) + ")"
	case *ssa.FieldAddr:
		key, _ := fieldKey(in.X.Type().Underlying().(*types.Pointer).Elem(), in.Field)
		return strings.TrimPrefix(key, "F:")
	case *ssa.UnOp:
		if in.Op == token.MUL {
			return "load(" + valueDesc(in.X) + ")"
		}
		return in.Op.String()
	case *ssa.Store:
		return "store(" + valueDesc(in.Addr) + ")"
	case *ssa.IndexAddr:
		return "index"
	case *ssa.Index:
		return "index"
	case *ssa.Lookup:
		return "lookup"
	case *ssa.Slice:
		return "slice"
	case *ssa.BinOp:
		return in.Op.String()
	case *ssa.TypeAssert:
		return typeStr(in.AssertedType)
	case *ssa.Panic:
		return "panic"
	case *ssa.MapUpdate:
		return "mapupdate"
	case *ssa.Return:
		return "return"
	case *ssa.MakeClosure:
		return in.Fn.Name()
	case *ssa.Convert:
		return "convert"
	}
	return fmt.Sprintf("%T", in)
}

func valueDesc(v ssa.Value) string {
	switch v := v.(type) {
	case *ssa.FieldAddr:
		key, _ := fieldKey(v.X.Type().Underlying().(*types.Pointer).Elem(), v.Field)
		return strings.TrimPrefix(key, "F:")
	case *ssa.FreeVar:
		return v.Name()
	case *ssa.Parameter:
		return v.Name()
	case *ssa.Global:
		return v.Name()
	case *ssa.Alloc:
		if v.Comment != "" {
			return v.Comment
		}
	case *ssa.UnOp:
		if v.Op == token.MUL {
			return valueDesc(v.X)
		}
	case *ssa.IndexAddr:
		return valueDesc(v.X) + "[]"
	case *ssa.Phi:
		if v.Comment != "" {
			return v.Comment
		}
	}
	return "_"
}

func computeLabels(f *ssa.Function) map[ssa.Instruction]string {
	m := map[ssa.Instruction]string{}
	cnt := map[string]int{}
	for _, b := range f.Blocks {
		for _, in := range b.Instrs {
			if _, ok := in.(*ssa.DebugRef); ok {
				continue
			}
			d := instrDesc(in)
			m[in] = fmt.Sprintf("%s#%d", d, cnt[d])
			cnt[d]++
		}
	}
	return m
}

// oblige emits one proof obligation: under the facts of s, goal holds.
func (x *Exec) oblige(s *State, kind, site string, goal T, pos token.Pos, props []string) {
	if s.dead {
		return
	}
	fnName := x.rootName
	name := fnName + "/" + kind + "/" + site
	if x.instances == nil {
		x.instances = map[string]int{}
	}
	inst := x.instances[name]
	x.instances[name]++
	o := &Obligation{Name: name, Fn: fnName, Kind: kind, Site: site, Props: props, Instance: inst,
		Pos: x.p.Prog.Fset.Position(pos), Trail: append([]string(nil), s.trail...)}
	if goal.S == "true" {
		o.Trivial = true
		o.Status = "trivial"
	} else {
		o.Query = x.queryOpt(s, goal, true, false)
	}
	x.sink(o)
}

func (x *Exec) cover(s *State, site string) {
	o := &Obligation{Name: x.rootName + "/cover/" + site, Fn: x.rootName, Kind: "cover", Site: site, Cover: true,
		Query: x.query(s, T{}, false), Trail: append([]string(nil), s.trail...)}
	x.sink(o)
}
