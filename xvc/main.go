package main

import (
	"fmt"
	"os"

	"golang.org/x/tools/go/packages"
	"golang.org/x/tools/go/ssa"
	"golang.org/x/tools/go/ssa/ssautil"
)

func main() {
	cfg := &packages.Config{Mode: packages.LoadAllSyntax, Dir: "/repo", BuildFlags: []string{"-tags=verif"}}
	pkgs, err := packages.Load(cfg, ".")
	if err != nil {
		panic(err)
	}
	prog, spkgs := ssautil.AllPackages(pkgs, ssa.GlobalDebug)
	prog.Build()
	p := spkgs[0]
	for _, m := range p.Members {
		if f, ok := m.(*ssa.Function); ok && len(os.Args) > 1 && f.Name() == os.Args[1] {
			f.WriteTo(os.Stdout)
			for _, a := range f.AnonFuncs {
				a.WriteTo(os.Stdout)
			}
		}
	}
	fmt.Println(len(p.Members))
}
