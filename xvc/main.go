package main

import (
	"strconv"
	"encoding/json"
	"go/types"
	"flag"
	"fmt"
	"os"
	"path/filepath"
	"sort"
	"strings"
	"sync"
	"time"

	"golang.org/x/tools/go/ssa"
)

type runConfig struct {
	repo, verif, prop, tier, fnFilter string
	workers                           int
	keep, verbose, dump, updateLock   bool
	seed                              int
}

func main() {
	if len(os.Args) < 2 {
		fmt.Fprintln(os.Stderr, "usage: xvc check|list|selftest ...")
		os.Exit(2)
	}
	cmd := os.Args[1]
	fs := flag.NewFlagSet(cmd, flag.ExitOnError)
	var cfg runConfig
	fs.StringVar(&cfg.repo, "repo", "/repo", "repository under verification")
	fs.StringVar(&cfg.verif, "verif", "/verif", "verification directory")
	fs.StringVar(&cfg.prop, "prop", "", "property id")
	fs.StringVar(&cfg.tier, "tier", "", "quick|thorough")
	fs.StringVar(&cfg.fnFilter, "fn", "", "only this function (debugging)")
	fs.IntVar(&cfg.workers, "j", 16, "parallel solver processes")
	fs.BoolVar(&cfg.keep, "keep", false, "keep all SMT files")
	fs.BoolVar(&cfg.verbose, "v", false, "verbose")
	fs.BoolVar(&cfg.updateLock, "update-lock", false, "rewrite obligations.lock for this property from this run (development only)")
	fs.Parse(os.Args[2:])
	if cfg.tier == "" {
		cfg.tier = os.Getenv("VERIF_TIER")
	}
	if cfg.tier == "" {
		cfg.tier = "quick"
	}
	fmt.Sscan(os.Getenv("VERIF_SEED"), &cfg.seed)
	switch cmd {
	case "check":
		os.Exit(runCheck(&cfg))
	case "list":
		os.Exit(runList(&cfg))
	case "solve":
		pool := newPool("/tmp/xvc-solve", 1, 10, cfg.tier == "thorough")
		pool.keep = true
		for _, f := range fs.Args() {
			b, _ := os.ReadFile(f)
			r := pool.solve(f, string(b))
			fmt.Println(f, r.status, r.solver, r.time, r.all)
		}
	default:
		fmt.Fprintln(os.Stderr, "unknown command", cmd)
		os.Exit(2)
	}
}

func loadAll(cfg *runConfig) (*Program, error) {
	p, err := loadProgram(cfg.repo)
	if err != nil {
		return nil, err
	}
	ctr, err := parseContracts(filepath.Join(cfg.repo, "verif_contracts.go"))
	if err != nil {
		return nil, err
	}
	p.Ctr = ctr
	th, err := loadTheory(filepath.Join(cfg.verif, "theory"))
	if err != nil {
		return nil, err
	}
	p.Theory = th
	// every field of every query type must be classified (C02/C04: a new field forces a decision)
	if len(ctr.FieldClass) > 0 {
		qt := p.lookupType("query")
		for _, ct := range p.concrete {
			pt, ok := ct.(*types.Pointer)
			if !ok || qt == nil || !types.Implements(ct, qt.Underlying().(*types.Interface)) {
				continue
			}
			st, ok := pt.Elem().Underlying().(*types.Struct)
			if !ok || st.NumFields() == 0 {
				continue
			}
			tn := typeStr(pt.Elem())
			cls := ctr.FieldClass[tn]
			if cls == nil {
				return nil, fmt.Errorf("query type %s has no `fields` classification in the contract file", tn)
			}
			for i := 0; i < st.NumFields(); i++ {
				if _, ok := cls[st.Field(i).Name()]; !ok {
					return nil, fmt.Errorf("field %s.%s is not classified (config/label/kids/state/scratch/unreset) in the contract file", tn, st.Field(i).Name())
				}
			}
			for f := range cls {
				found := false
				for i := 0; i < st.NumFields(); i++ {
					if st.Field(i).Name() == f {
						found = true
					}
				}
				if !found {
					return nil, fmt.Errorf("contract file classifies %s.%s, which does not exist", tn, f)
				}
			}
		}
	}
	// a function literal stored in a field that has a field contract (functionQuery.Func,
	// transformFunctionQuery.Func, ...) must carry a contract that says it conforms to it: callers of
	// the field rely on the field contract, and the frame obligations of C04/C05/C13 hang on `conforms`
	for name, f := range p.Funcs {
		for _, blk := range f.Blocks {
			for _, in := range blk.Instrs {
				st, ok := in.(*ssa.Store)
				if !ok {
					continue
				}
				fa, ok := st.Addr.(*ssa.FieldAddr)
				if !ok {
					continue
				}
				pt, ok := fa.X.Type().Underlying().(*types.Pointer)
				if !ok {
					continue
				}
				str, ok := pt.Elem().Underlying().(*types.Struct)
				if !ok {
					continue
				}
				key := typeStr(pt.Elem()) + "." + str.Field(fa.Field).Name()
				if ctr.Fields[key] == nil || !strings.HasSuffix(key, ".Func") {
					continue // (the .iterator slots of the step queries are covered by the passes-test check below)
				}
				var stored *ssa.Function
				switch v := st.Val.(type) {
				case *ssa.MakeClosure:
					stored, _ = v.Fn.(*ssa.Function)
				case *ssa.Function:
					stored = v
				}
				if stored == nil {
					continue
				}
				sc := ctr.Funcs[p.Names[stored]]
				if sc == nil || sc.Conforms != key {
					return nil, fmt.Errorf("%s stores the function %s in %s, but that function has no contract with `conforms %s` (its obligations as an XPath function — no state kept between evaluations, cursor restored, value type — would go unchecked)", name, p.Names[stored], key, key)
				}
			}
		}
	}
	// the assumed summary `passes-test` of the .iterator slots rests on a proved clause of the same
	// label in every closure a step query stores there
	for name, f := range p.Funcs {
		par := f.Parent()
		if par == nil || par.Signature.Recv() == nil || par.Name() != "Select" {
			continue
		}
		pt, ok := par.Signature.Recv().Type().Underlying().(*types.Pointer)
		if !ok {
			continue
		}
		st, ok := pt.Elem().Underlying().(*types.Struct)
		if !ok {
			continue
		}
		hasIt, hasPred := false, false
		for i := 0; i < st.NumFields(); i++ {
			switch st.Field(i).Name() {
			case "iterator":
				hasIt = true
			case "Predicate":
				hasPred = true
			}
		}
		if !hasIt || !hasPred || f.Signature.Params().Len() != 0 || f.Signature.Results().Len() != 1 || typeStr(f.Signature.Results().At(0).Type()) != "NodeNavigator" {
			continue
		}
		ok = false
		if fc := ctr.Funcs[name]; fc != nil {
			for _, cl := range fc.clauses("ensures") {
				if cl.Label == "passes-test" {
					ok = true
				}
			}
		}
		if !ok {
			return nil, fmt.Errorf("iterator closure %s of a step query has no proved `ensures[passes-test...]` clause (the .iterator slot contract assumes one)", name)
		}
	}
	// contracts must name existing functions
	for name := range ctr.Funcs {
		if p.Funcs[name] == nil {
			// the obligations pinned for it in obligations.lock are then reported as missing
			fmt.Fprintf(os.Stderr, "xvc: warning: contract for unknown function %q (renamed or removed?)\n", name)
			delete(ctr.Funcs, name)
		}
	}
	return p, nil
}

func runList(cfg *runConfig) int {
	p, err := loadAll(cfg)
	if err != nil {
		fmt.Fprintln(os.Stderr, "xvc:", err)
		return 2
	}
	for _, n := range p.Order {
		c := ""
		if fc := p.Ctr.Funcs[n]; fc != nil {
			c = fmt.Sprintf("contract props=%v", fc.Props)
		}
		fmt.Printf("%-50s sweep=%v %s\n", n, p.inSweep(p.Funcs[n]), c)
	}
	return 0
}

func hasProp(props []string, p string) bool {
	for _, q := range props {
		if q == p || q == p+"!" || q == p+"!!" {
			return true
		}
	}
	return false
}

// safety obligation kinds that make up the C15 sweep
var sweepKinds = map[string]bool{"nil-deref": true, "nil-func-call": true, "nil-map-write": true, "index": true, "slice-bounds": true,
	"int-div-zero": true, "type-assert": true, "panic-unreachable": true}

func (p *Program) oblProps(o *Obligation, fnProps []string) []string {
	if sweepKinds[o.Kind] {
		return []string{"C15"}
	}
	if o.Props != nil {
		return o.Props
	}
	if fnProps != nil {
		return fnProps
	}
	if f := p.Funcs[o.Fn]; f != nil && p.inSweep(f) {
		return []string{"C15"} // well-formedness obligations of evaluation-phase code carry the sweep
	}
	return nil
}

// functionsFor selects the functions whose obligations serve a property.
func (p *Program) functionsFor(prop string) []string {
	var out []string
	for _, n := range p.Order {
		f := p.Funcs[n]
		fc := p.Ctr.Funcs[n]
		take := false
		if prop == "C15" && p.inSweep(f) {
			take = true
		}
		if fc != nil {
			if hasProp(fc.Props, prop) {
				take = true
			}
			for _, cl := range fc.Clauses {
				if hasProp(cl.Props, prop) {
					take = true
				}
			}
			if fc.Conforms != "" {
				if fcc := p.Ctr.Fields[fc.Conforms]; fcc != nil && (hasProp(fcc.Props, prop) || clausesHave(fcc, prop)) {
					take = true
				}
			}
		}
		// methods refining a contracted interface
		if f.Signature.Recv() != nil {
			for key, ic := range p.Ctr.Ifaces {
				if strings.HasSuffix(key, "."+f.Name()) && (hasProp(ic.Props, prop) || clausesHave(ic, prop)) {
					take = true
				}
			}
		}
		if take {
			out = append(out, n)
		}
	}
	return out
}

func clausesHave(fc *FuncContract, prop string) bool {
	for _, cl := range fc.Clauses {
		if hasProp(cl.Props, prop) {
			return true
		}
	}
	return false
}

type finding struct {
	prop, obligation, witness string
}

func loadFindings(path string) []finding {
	b, err := os.ReadFile(path)
	if err != nil {
		return nil
	}
	var out []finding
	for _, l := range strings.Split(string(b), "\n") {
		l = strings.TrimSpace(l)
		if !strings.HasPrefix(l, "finding:") {
			continue
		}
		var f finding
		rest := strings.TrimSpace(strings.TrimPrefix(l, "finding:"))
		if i := strings.Index(rest, " witness="); i >= 0 {
			f.witness = rest[i+9:]
			rest = rest[:i]
		}
		for _, kv := range strings.Fields(rest) {
			if strings.HasPrefix(kv, "property=") {
				f.prop = kv[9:]
			}
			if strings.HasPrefix(kv, "obligation=") {
				f.obligation = kv[11:]
			}
		}
		out = append(out, f)
	}
	return out
}

func loadLock(path string) map[string]map[string]bool {
	m := map[string]map[string]bool{}
	b, err := os.ReadFile(path)
	if err != nil {
		return m
	}
	for _, l := range strings.Split(string(b), "\n") {
		f := strings.Fields(l)
		if len(f) != 2 || strings.HasPrefix(l, "#") {
			continue
		}
		if m[f[0]] == nil {
			m[f[0]] = map[string]bool{}
		}
		m[f[0]][f[1]] = true
	}
	return m
}

func loadList(path string) map[string]bool {
	m := map[string]bool{}
	b, err := os.ReadFile(path)
	if err != nil {
		return m
	}
	for _, l := range strings.Split(string(b), "\n") {
		l = strings.TrimSpace(l)
		if l == "" || strings.HasPrefix(l, "#") {
			continue
		}
		m[strings.Fields(l)[0]] = true
	}
	return m
}

type oblSummary struct {
	status   string
	solvers  map[string]int
	time     float64
	n        int
	worst    *Obligation
	kind, fn string
}

func runCheck(cfg *runConfig) int {
	t0 := time.Now()
	if cfg.prop == "" {
		fmt.Fprintln(os.Stderr, "xvc check: -prop required")
		return 2
	}
	p, err := loadAll(cfg)
	if err != nil {
		fmt.Fprintln(os.Stderr, "xvc: cannot load:", err)
		// a tree that no longer loads with the contracts is reported, not silently passed
		fmt.Printf("VIOLATION property=%s replay=%s no-failing-input-found\n", cfg.prop, writeReplay(cfg, cfg.prop, "engine/load", "load error: "+err.Error(), nil))
		writeEvidence(cfg, nil, nil, map[string]*oblSummary{"engine/load": {status: "error", n: 1}}, nil, nil, time.Since(t0).Seconds(), 1, nil, nil)
		return 1
	}
	loadS := time.Since(t0).Seconds()
	fns := p.functionsFor(cfg.prop)
	if cfg.fnFilter != "" {
		fns = []string{cfg.fnFilter}
	}
	timeout := 30
	if cfg.tier == "thorough" {
		timeout = 60
	}
	// scratch: one directory per run; those of earlier runs of this property whose process is gone are removed
	if olds, _ := filepath.Glob(filepath.Join(cfg.verif, "work", cfg.prop+"-*")); true {
		for _, d := range olds {
			pid, err := strconv.Atoi(d[strings.LastIndex(d, "-")+1:])
			if err != nil {
				continue
			}
			if _, err := os.Stat(fmt.Sprintf("/proc/%d", pid)); err != nil {
				os.RemoveAll(d)
			}
		}
	}
	work := filepath.Join(cfg.verif, "work", fmt.Sprintf("%s-%d", cfg.prop, os.Getpid()))
	pool := newPool(work, cfg.workers, timeout, cfg.tier == "thorough")
	pool.keep = cfg.keep
	var mu sync.Mutex
	var all []*Obligation
	var results []*FuncResult
	fnProps := map[string][]string{}
	for _, n := range fns {
		if fc := p.Ctr.Funcs[n]; fc != nil {
			fnProps[n] = fc.Props
		}
	}
	genT0 := time.Now()
	for _, n := range fns {
		name := n
		fT0 := time.Now()
		defer func() {}()
		r := p.verifyFunction(name, cfg.tier, cfg.prop, func(o *Obligation) {
			props := p.oblProps(o, fnProps[name])
			if !o.Cover && !hasProp(props, cfg.prop) {
				return
			}
			o.Props = props
			pool.submit(o, func(o *Obligation) {
				mu.Lock()
				all = append(all, o)
				mu.Unlock()
			})
		})
		results = append(results, r)
		if d := time.Since(fT0).Seconds(); d > 2 && cfg.verbose {
			fmt.Fprintf(os.Stderr, "slow: %s %.1fs (%d paths)\n", name, d, r.Paths)
		}
	}
	// vacuity guard for the quantified navigator-tree axioms: they must hold in a concrete document
	if cfg.fnFilter == "" || true {
		used := map[string]bool{}
		for _, n := range fns {
			if fc := p.Ctr.Funcs[n]; fc != nil {
				for _, a := range fc.Uses {
					if ax := p.Ctr.Axioms[a]; ax != nil && strings.Contains(ax.Expr, "Pos") {
						used[a] = true
					}
				}
			}
		}
		if len(used) > 0 {
			var names []string
			for a := range used {
				names = append(names, a)
			}
			sort.Strings(names)
			o := &Obligation{Name: "axioms/cover/consistent-on-sample-document", Fn: "axioms", Kind: "cover", Site: strings.Join(names, ","), Cover: true}
			if q, err := p.axiomConsistency(names, filepath.Join(cfg.verif, "theory", "sample_tree.model")); err == nil {
				o.Query = q
				pool.submit(o, func(o *Obligation) {
					mu.Lock()
					all = append(all, o)
					mu.Unlock()
				})
			} else {
				fmt.Fprintln(os.Stderr, "engine: axiom consistency query:", err)
			}
		}
	}
	genS := time.Since(genT0).Seconds()
	pool.wait()
	// an obligation that ran out of time while sixteen others were competing for the cores gets a
	// second, longer look (four at a time) before it is reported; when many time out the tree has
	// changed in a way the proofs do not survive and a second look would only cost time
	var again []*Obligation
	for _, o := range all {
		if !o.Cover && o.Query != "" && (o.Status == "timeout" || o.Status == "unknown") {
			again = append(again, o)
		}
	}
	if len(again) > 0 && len(again) <= 8 {
		var wg sync.WaitGroup
		lim := make(chan struct{}, 4)
		for _, o := range again {
			wg.Add(1)
			lim <- struct{}{}
			go func(o *Obligation) {
				defer func() { <-lim; wg.Done() }()
				r := pool.solveWith(o.Name+" (retry)", o.Query+"\n; retry\n", 3*timeout)
				o.Status, o.Solver, o.Time = r.status, r.solver, o.Time+r.time
				if r.status != "unsat" {
					o.Model = r.output
				} else {
					o.Model = ""
				}
			}(o)
		}
		wg.Wait()
	}
	for _, o := range all {
		o.Query = ""
	}
	if cfg.verbose {
		fmt.Fprintf(os.Stderr, "generation %.1fs\n", genS)
	}
	// roll up instances into named obligations
	sum := map[string]*oblSummary{}
	covers := map[string]string{}
	rank := map[string]int{"trivial": 0, "unsat": 1, "unknown": 2, "timeout": 3, "error": 4, "conflict": 5, "sat": 6}
	for _, o := range all {
		if o.Cover {
			// a cover passes when at least one of its instances is satisfiable
			prev, ok := covers[o.Name]
			if !ok || o.Status == "sat" || (prev != "sat" && o.Status != "unsat") {
				covers[o.Name] = o.Status
			}
			continue
		}
		s := sum[o.Name]
		if s == nil {
			s = &oblSummary{status: "trivial", solvers: map[string]int{}, kind: o.Kind, fn: o.Fn}
			sum[o.Name] = s
		}
		s.n++
		s.time += o.Time
		if o.Solver != "" {
			s.solvers[o.Solver]++
		} else if o.Trivial {
			s.solvers["xvc-simplifier"]++
		}
		if rank[o.Status] > rank[s.status] {
			s.status = o.Status
			s.worst = o
		}
	}
	// engine-level problems make a function's obligations incomplete
	var engineIssues []string
	for _, r := range results {
		if r.Capped {
			engineIssues = append(engineIssues, r.Name+": path cap exceeded")
		}
		sort.Strings(r.Unsup)
		for _, u := range r.Unsup {
			engineIssues = append(engineIssues, r.Name+": "+u)
		}
	}
	lock := loadLock(filepath.Join(cfg.verif, "obligations.lock"))[cfg.prop]
	undecided := loadList(filepath.Join(cfg.verif, "undecided.txt"))
	findings := loadFindings(filepath.Join(cfg.verif, "known_findings.txt"))
	var names []string
	for n := range sum {
		names = append(names, n)
	}
	sort.Strings(names)
	violations := 0
	var failing []string
	var known []string
	discharged := 0
	claimed := 0
	var undecidedSeen []string
	for _, n := range names {
		s := sum[n]
		if undecided[n] {
			undecidedSeen = append(undecidedSeen, n+" ("+s.status+")")
			continue
		}
		claimed++
		if s.status == "unsat" || s.status == "trivial" {
			discharged++
			continue
		}
		isKnown := false
		for _, f := range findings {
			if f.prop == cfg.prop && f.obligation == n {
				fmt.Printf("KNOWN-FINDING: property=%s %s %s\n", cfg.prop, n, f.witness)
				known = append(known, n)
				isKnown = true
			}
		}
		if isKnown {
			continue
		}
		violations++
		failing = append(failing, n)
		suffix := ""
		detail := ""
		if s.worst != nil {
			detail = s.worst.Model
		}
		replay, reproduced := tryReplay(cfg, p, cfg.prop, n, s)
		if !reproduced {
			suffix = " no-failing-input-found"
		}
		if replay == "" {
			replay = writeReplay(cfg, cfg.prop, n, fmt.Sprintf("status: %s\n%s", s.status, detail), s.worst)
		}
		fmt.Printf("VIOLATION property=%s replay=%s obligation=%s status=%s%s\n", cfg.prop, replay, n, s.status, suffix)
	}
	// vacuity guards
	for n := range lock {
		if cfg.fnFilter != "" {
			break // a single-function debugging run generates only that function's obligations
		}
		if _, ok := sum[n]; !ok && !undecided[n] {
			fn := strings.SplitN(n, "/", 2)[0]
			_ = fn
			violations++
			failing = append(failing, n+" (claimed obligation no longer generated)")
			fmt.Printf("VIOLATION property=%s replay=%s obligation=%s status=missing no-failing-input-found\n", cfg.prop,
				writeReplay(cfg, cfg.prop, n, "obligation listed in obligations.lock was not generated from the current tree", nil), n)
		}
	}
	for n, st := range covers {
		if strings.HasPrefix(n, "axioms/") && st != "sat" && st != "unsat" {
			violations++
			failing = append(failing, n+" (consistency of the tree axioms not established: "+st+")")
			fmt.Printf("VIOLATION property=%s replay=%s obligation=%s status=%s no-failing-input-found\n", cfg.prop,
				writeReplay(cfg, cfg.prop, n, "the navigator-tree axioms could not be shown to hold in the sample document (solver: "+st+")", nil), n, st)
		}
		if st == "unsat" {
			violations++
			failing = append(failing, n+" (contradictory assumptions)")
			fmt.Printf("VIOLATION property=%s replay=%s obligation=%s status=vacuous no-failing-input-found\n", cfg.prop,
				writeReplay(cfg, cfg.prop, n, "cover query is unsat: the assumptions of this function are contradictory (engine fault)", nil), n)
		}
	}
	if claimed == 0 {
		violations++
		fmt.Printf("VIOLATION property=%s replay=%s obligation=engine/none status=vacuous no-failing-input-found\n", cfg.prop,
			writeReplay(cfg, cfg.prop, "engine/none", "no obligation was generated for this property", nil))
	}
	// a contract clause that cannot be evaluated, a construct the executor does not model, or a capped
	// path enumeration leaves obligations ungenerated: the function is not verified
	if len(engineIssues) > 0 {
		sort.Strings(engineIssues)
		violations++
		failing = append(failing, "engine/incomplete")
		fmt.Printf("VIOLATION property=%s replay=%s obligation=engine/incomplete status=incomplete no-failing-input-found\n", cfg.prop,
			writeReplay(cfg, cfg.prop, "engine/incomplete", "the obligations of these functions are incomplete (a clause could not be evaluated or a construct is not modelled):\n"+strings.Join(engineIssues, "\n"), nil))
		if cfg.verbose {
			for _, e := range engineIssues {
				fmt.Fprintln(os.Stderr, "engine:", e)
			}
		}
	}
	if cfg.updateLock {
		updateLock(filepath.Join(cfg.verif, "obligations.lock"), cfg.prop, sum, undecided)
	}
	wall := time.Since(t0).Seconds()
	writeEvidence(cfg, p, results, sum, covers, pool, wall, violations, known, undecidedSeen)
	fmt.Printf("xvc: property=%s tier=%s functions=%d obligations=%d discharged=%d known=%d undecided=%d violations=%d load=%.1fs wall=%.1fs solver=%.1fs (max %.2fs) queries=%d\n",
		cfg.prop, cfg.tier, len(fns), claimed, discharged, len(known), len(undecidedSeen), violations, loadS, wall, pool.totalTime, pool.maxTime, pool.queries)
	if cfg.verbose {
		type st struct {
			n string
			t float64
		}
		var sl []st
		for _, n := range names {
			sl = append(sl, st{n, sum[n].time})
		}
		sort.Slice(sl, func(i, j int) bool { return sl[i].t > sl[j].t })
		for i := 0; i < 12 && i < len(sl); i++ {
			fmt.Fprintf(os.Stderr, "time %.1fs %s (%d instances)\n", sl[i].t, sl[i].n, sum[sl[i].n].n)
		}
	}
	if os.Getenv("XVC_NAMES") != "" {
		for _, n := range names {
			fmt.Printf("  OBL %-8s %s (%d)\n", sum[n].status, n, sum[n].n)
		}
	}
	if cfg.verbose {
		for _, n := range names {
			s := sum[n]
			if s.status != "unsat" && s.status != "trivial" {
				fmt.Printf("  %-8s %s (%d instances)\n", s.status, n, s.n)
			}
		}
	}
	if violations == 0 && !cfg.keep {
		os.RemoveAll(work)
	}
	if violations > 0 {
		return 1
	}
	return 0
}

// lockedKinds: obligations that come from a contract clause. Only these are pinned by name in
// obligations.lock (vacuity guard): the implicit run-time checks are generated from the code and
// legitimately come and go when the code is refactored.
var lockedKinds = map[string]bool{"ensures": true, "conforms": true, "conforms-requires": true, "refines": true, "lockinv-restored": true,
	"invariant-entry": true, "invariant-preserved": true, "decreases": true, "captures": true, "panic-escapes": true, "lemma": true}

func updateLock(path, prop string, sum map[string]*oblSummary, undecided map[string]bool) {
	lock := loadLock(path)
	lock[prop] = map[string]bool{}
	for n, s := range sum {
		if !lockedKinds[s.kind] {
			continue
		}
		if (s.status == "unsat" || s.status == "trivial") && !undecided[n] {
			lock[prop][n] = true
		}
	}
	var props []string
	for k := range lock {
		props = append(props, k)
	}
	sort.Strings(props)
	var sb strings.Builder
	sb.WriteString("# property obligation — obligations discharged on the unchanged tree and therefore claimed.\n# Regenerate with `xvc check -prop <id> -update-lock` only after reviewing the diff.\n")
	for _, pr := range props {
		var ns []string
		for n := range lock[pr] {
			ns = append(ns, n)
		}
		sort.Strings(ns)
		for _, n := range ns {
			sb.WriteString(pr + " " + n + "\n")
		}
	}
	os.WriteFile(path, []byte(sb.String()), 0o644)
}

func writeReplay(cfg *runConfig, prop, obligation, text string, o *Obligation) string {
	dir := filepath.Join(cfg.verif, "replays", prop)
	os.MkdirAll(dir, 0o755)
	path := filepath.Join(dir, sanitize(obligation)+".txt")
	var sb strings.Builder
	sb.WriteString("property: " + prop + "\nobligation: " + obligation + "\n")
	if o != nil {
		sb.WriteString(fmt.Sprintf("source: %s\npath: %s\n", o.Pos, strings.Join(o.Trail, " ")))
	}
	sb.WriteString("\n" + text + "\n")
	os.WriteFile(path, []byte(sb.String()), 0o644)
	return path
}

func writeEvidence(cfg *runConfig, p *Program, results []*FuncResult, sum map[string]*oblSummary, covers map[string]string, pool *Pool, wall float64, violations int, known, undecided []string) {
	type ev struct {
		PropertyID  string                 `json:"property_id"`
		Tier        string                 `json:"tier"`
		Seed        int                    `json:"seed"`
		Level       string                 `json:"level"`
		Coverage    map[string]interface{} `json:"coverage"`
		Assumptions []string               `json:"assumptions"`
		WallS       float64                `json:"wall_s"`
		Violations  int                    `json:"violations"`
	}
	e := ev{PropertyID: cfg.prop, Tier: cfg.tier, Seed: cfg.seed, Level: "proof", WallS: wall, Violations: violations, Coverage: map[string]interface{}{}}
	backends := map[string]int{}
	kinds := map[string]int{}
	obl, dis, inst := 0, 0, 0
	var samples []interface{}
	var names []string
	for n := range sum {
		names = append(names, n)
	}
	sort.Strings(names)
	fnset := map[string]bool{}
	var notDischarged []string
	knownSet := map[string]bool{}
	for _, k := range known {
		knownSet[k] = true
	}
	undecSet := map[string]bool{}
	for _, u := range undecided {
		undecSet[strings.SplitN(u, " ", 2)[0]] = true
	}
	for _, n := range names {
		s := sum[n]
		if knownSet[n] || undecSet[n] {
			continue // reported separately; not part of the proof claim
		}
		obl++
		inst += s.n
		kinds[s.kind]++
		fnset[s.fn] = true
		if s.status == "unsat" || s.status == "trivial" {
			dis++
		} else {
			notDischarged = append(notDischarged, n+": "+s.status)
		}
		for k, v := range s.solvers {
			backends[k] += v
		}
		if len(samples) < 12 && s.kind != "nil-deref" {
			samples = append(samples, map[string]interface{}{"obligation": n, "instances": s.n, "status": s.status, "solver_time_s": round3(s.time)})
		}
	}
	if len(samples) == 0 {
		for _, n := range names {
			if len(samples) >= 5 {
				break
			}
			samples = append(samples, map[string]interface{}{"obligation": n, "status": sum[n].status})
		}
	}
	var fnames []string
	for f := range fnset {
		fnames = append(fnames, f)
	}
	sort.Strings(fnames)
	e.Coverage["obligations"] = obl
	e.Coverage["discharged"] = dis
	e.Coverage["obligation_instances"] = inst
	e.Coverage["checker_cmd"] = fmt.Sprintf("/verif/check %s (xvc check -prop %s -tier %s; VCs from go/ssa of %s, discharged by z3-new 5.1.0 / z3 4.8.12 / cvc5 1.0)", cfg.prop, cfg.prop, cfg.tier, cfg.repo)
	e.Coverage["trusted_base"] = []string{"xvc SSA-to-SMT translation (self-built, unverified; guarded by must-fail selftest corpus and cover queries)",
		"go/packages + go/types + go/ssa (x/tools v0.29.0)", "SMT solvers: an unsat answer is believed", "assumed contracts listed under assumptions"}
	e.Coverage["functions_under_contract"] = fnames
	e.Coverage["by_backend"] = backends
	e.Coverage["by_kind"] = kinds
	e.Coverage["samples"] = samples
	e.Coverage["not_discharged"] = notDischarged
	e.Coverage["known_findings"] = known
	e.Coverage["undecided_not_claimed"] = undecided
	cv := map[string]int{}
	for _, st := range covers {
		cv[st]++
	}
	e.Coverage["cover_checks"] = cv
	if pool != nil {
		e.Coverage["solver_time_s"] = map[string]float64{"sum": round3(pool.totalTime), "max": round3(pool.maxTime)}
		e.Coverage["solver_queries"] = pool.queries
	}
	aset := map[string]bool{}
	var engine []string
	for _, r := range results {
		for _, a := range r.Assumed {
			aset[a] = true
		}
		for _, u := range r.Unsup {
			engine = append(engine, r.Name+": "+u)
		}
		if r.Capped {
			engine = append(engine, r.Name+": path cap exceeded (obligations of this function incomplete)")
		}
	}
	sort.Strings(engine)
	e.Coverage["engine_limits_hit"] = engine
	for a := range aset {
		e.Assumptions = append(e.Assumptions, a)
	}
	sort.Strings(e.Assumptions)
	e.Assumptions = append(e.Assumptions, propertyAssumptions[cfg.prop]...)
	if e.Assumptions == nil {
		e.Assumptions = []string{}
	}
	os.MkdirAll(filepath.Join(cfg.verif, "evidence"), 0o755)
	b, _ := json.MarshalIndent(e, "", " ")
	os.WriteFile(filepath.Join(cfg.verif, "evidence", cfg.prop+".json"), b, 0o644)
}

func round3(f float64) float64 { return float64(int(f*1000+0.5)) / 1000 }

// what each property's check does NOT decide (repeated in every evidence file)
var propertyAssumptions = map[string][]string{}
