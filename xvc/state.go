package main

// Symbolic values and state of the executor.

import (
	"fmt"
	"regexp"
	"go/types"
	"sort"
	"strings"

	"golang.org/x/tools/go/ssa"
)

type vkind int

const (
	vScalar vkind = iota
	vSlice
	vTuple
	vFieldPtr  // &obj.f
	vIndexPtr  // &backing[i]
	vGlobalPtr // &global
	vRange     // range iterator
	vNone
)

type Val struct {
	K     vkind
	T     T     // scalar
	Parts []Val // tuple
	// slice
	Arr, Off, Len, Cap T
	// pointers
	Base T
	Idx  T
	Key  string
	Typ  types.Type
}

func scalar(t T) Val { return Val{K: vScalar, T: t} }

type Frame struct {
	fn    *ssa.Function
	env   map[ssa.Value]Val
	loopHeads map[int]map[string]T // heap snapshot at the head of each loop in its current iteration (for at(L, e))
	loopHeadNames map[int]map[string]Val // the local variables as they were there
	callArgs map[ssa.Value][]Val // the argument values each call was given (for argval())
	ranCond map[ssa.Value]T // after a merge of paths: under which condition a call that only some of them made has run (for called())
	names map[string]Val // source-level names bound by DebugRef (values) — latest
	addrs map[string]Val // source-level names whose DebugRef is an address
	lets  map[string]Val // ghost lets
	// loop bookkeeping: measure values recorded at header arrival
	measures map[*ssa.BasicBlock][]T
	inLoop   map[*ssa.BasicBlock]bool
	args     []Val
	entry    *State // snapshot of heaps at entry for old()
	defers   []*ssa.Defer
	panicking *Val // in-flight panic value while running defers
	recovered bool
	k cont // continuation receiving the normal returns of this frame
}

func (f *Frame) clone() *Frame {
	g := *f
	g.env = make(map[ssa.Value]Val, len(f.env))
	for k, v := range f.env {
		g.env[k] = v
	}
	if f.callArgs != nil {
		g.callArgs = make(map[ssa.Value][]Val, len(f.callArgs))
		for k, v := range f.callArgs {
			g.callArgs[k] = v
		}
	}
	if f.ranCond != nil {
		g.ranCond = make(map[ssa.Value]T, len(f.ranCond))
		for k, v := range f.ranCond {
			g.ranCond[k] = v
		}
	}
	if f.loopHeadNames != nil {
		g.loopHeadNames = make(map[int]map[string]Val, len(f.loopHeadNames))
		for k, v := range f.loopHeadNames {
			g.loopHeadNames[k] = v // immutable once taken
		}
	}
	if f.loopHeads != nil {
		g.loopHeads = make(map[int]map[string]T, len(f.loopHeads))
		for k, v := range f.loopHeads {
			g.loopHeads[k] = v // snapshots are immutable once taken
		}
	}
	g.names = make(map[string]Val, len(f.names))
	for k, v := range f.names {
		g.names[k] = v
	}
	g.addrs = make(map[string]Val, len(f.addrs))
	for k, v := range f.addrs {
		g.addrs[k] = v
	}
	g.lets = make(map[string]Val, len(f.lets))
	for k, v := range f.lets {
		g.lets[k] = v
	}
	g.measures = make(map[*ssa.BasicBlock][]T, len(f.measures))
	for k, v := range f.measures {
		g.measures[k] = v
	}
	g.inLoop = make(map[*ssa.BasicBlock]bool, len(f.inLoop))
	for k, v := range f.inLoop {
		g.inLoop[k] = v
	}
	g.defers = append([]*ssa.Defer(nil), f.defers...)
	return &g
}

type State struct {
	decls  []string
	facts  []T
	heap   map[string]T // current symbol per heap key
	heap0  map[string]T // symbol at function entry (for old())
	frames []*Frame
	fresh  []T // refs allocated since entry of the function under verification
	trail  []string
	lits   map[string]T // string literals used
	dead   bool
	locks  map[string]string // ghost lock state by mutex key: "", "R", "W"
	ghost  map[string]T      // named ghost scalars
	allocTypes []allocRec
	dirty map[string]bool // objects whose invariant this path has (possibly) broken
	escaped map[string]bool // fresh objects stored somewhere
	freshArrays []arrRec   // backing arrays allocated by this function
	exceptFns []func(string) bool // for "?except" entries of wildHavoc: keys these functions accept were NOT havocked
	navCopies []T // navigators this function obtained from Copy() (its own cursors)
	lastFrame *Frame // the frame that has just returned (its locals are visible to ensures clauses)
	replacers map[string][3]T // strings.NewReplacer results: content array, offset and length of the pair list they were built from
	wildHavoc []string // key patterns havocked while those keys were not materialised yet
	navOwner map[string]string // navigator value (term) -> the query value (term) whose Select produced it
}

type arrRec struct {
	ref T
	key string
}

type allocRec struct {
	ref  T
	t    types.Type
	site string
}

func (s *State) clone() *State {
	n := &State{}
	n.decls = append([]string(nil), s.decls...)
	n.facts = append([]T(nil), s.facts...)
	n.heap = make(map[string]T, len(s.heap))
	for k, v := range s.heap {
		n.heap[k] = v
	}
	n.heap0 = make(map[string]T, len(s.heap0))
	for k, v := range s.heap0 {
		n.heap0[k] = v
	}
	for _, f := range s.frames {
		n.frames = append(n.frames, f.clone())
	}
	n.fresh = append([]T(nil), s.fresh...)
	n.trail = append([]string(nil), s.trail...)
	n.lits = make(map[string]T, len(s.lits))
	for k, v := range s.lits {
		n.lits[k] = v
	}
	n.locks = make(map[string]string, len(s.locks))
	for k, v := range s.locks {
		n.locks[k] = v
	}
	n.allocTypes = append([]allocRec(nil), s.allocTypes...)
	n.freshArrays = append([]arrRec(nil), s.freshArrays...)
	n.wildHavoc = append([]string(nil), s.wildHavoc...)
	n.navCopies = append([]T(nil), s.navCopies...)
	n.exceptFns = append([]func(string) bool(nil), s.exceptFns...)
	if s.replacers != nil {
		n.replacers = make(map[string][3]T, len(s.replacers))
		for k, v := range s.replacers {
			n.replacers[k] = v
		}
	}
	n.navOwner = make(map[string]string, len(s.navOwner))
	for k, v := range s.navOwner {
		n.navOwner[k] = v
	}
	n.escaped = make(map[string]bool, len(s.escaped))
	for k, v := range s.escaped {
		n.escaped[k] = v
	}
	n.dirty = make(map[string]bool, len(s.dirty))
	for k, v := range s.dirty {
		n.dirty[k] = v
	}
	n.ghost = make(map[string]T, len(s.ghost))
	for k, v := range s.ghost {
		n.ghost[k] = v
	}
	return n
}

func (s *State) top() *Frame { return s.frames[len(s.frames)-1] }

func (s *State) assume(t T) {
	if t.S == "true" {
		return
	}
	if t.S == "false" {
		s.dead = true
	}
	s.facts = append(s.facts, t)
}

// query renders the SMT-LIB text asking whether goal can fail under the state's facts.
// With slice=true only the facts connected to the goal through shared symbols are kept
// (a weaker set of assumptions: an unsat answer is still a proof).
func (x *Exec) query(s *State, goal T, wantModel bool) string { return x.queryOpt(s, goal, wantModel, false) }

var symCache = map[string][]string{}

func symbolsOf(t string) []string {
	if v, ok := symCache[t]; ok {
		return v
	}
	var out []string
	seen := map[string]bool{}
	i := 0
	for i < len(t) {
		c := t[i]
		if c == '|' {
			j := strings.IndexByte(t[i+1:], '|')
			if j < 0 {
				break
			}
			i += j + 2
			continue
		}
		if isSymChar(c) {
			j := i
			for j < len(t) && isSymChar(t[j]) {
				j++
			}
			w := t[i:j]
			if !seen[w] && (strings.ContainsAny(w, "!") || strings.HasPrefix(w, "fn!")) {
				seen[w] = true
				out = append(out, w)
			}
			i = j
			continue
		}
		i++
	}
	symCache[t] = out
	return out
}

func isSymChar(c byte) bool {
	return c >= 'a' && c <= 'z' || c >= 'A' && c <= 'Z' || c >= '0' && c <= '9' || c == '_' || c == '.' || c == '!' || c == '$' || c == '@' || c == '#'
}

func (x *Exec) queryOpt(s *State, goal T, wantModel bool, slice bool) string {
	var sb strings.Builder
	sb.WriteString(x.prelude())
	keepFact := make([]bool, len(s.facts))
	rel := map[string]bool{}
	if slice && goal.S != "" {
		for _, w := range symbolsOf(goal.S) {
			rel[w] = true
		}
		changed := true
		for changed {
			changed = false
			for i, f := range s.facts {
				if keepFact[i] {
					continue
				}
				syms := symbolsOf(f.S)
				hit := len(syms) == 0 // ground facts about theory symbols are always kept
				for _, w := range syms {
					if rel[w] {
						hit = true
						break
					}
				}
				if hit {
					keepFact[i] = true
					for _, w := range syms {
						if !rel[w] {
							rel[w] = true
							changed = true
						}
					}
				}
			}
		}
	} else {
		for i := range keepFact {
			keepFact[i] = true
		}
	}
	for _, d := range s.decls {
		if slice && goal.S != "" {
			// "(declare-const NAME ..." / "(declare-fun NAME ..."
			f := strings.Fields(d)
			if len(f) >= 2 && strings.ContainsAny(f[1], "!") && !rel[f[1]] {
				continue
			}
		}
		sb.WriteString(d)
		sb.WriteByte('\n')
	}
	// distinct string literals
	if len(s.lits) > 1 {
		var names []string
		for _, v := range s.lits {
			if !slice || goal.S == "" || rel[v.S] {
				names = append(names, v.S)
			}
		}
		sort.Strings(names)
		if len(names) > 1 {
			sb.WriteString("(assert (distinct " + strings.Join(names, " ") + "))\n")
		}
	}
	for i, f := range s.facts {
		if !keepFact[i] {
			continue
		}
		sb.WriteString("(assert ")
		sb.WriteString(f.S)
		sb.WriteString(")\n")
	}
	if goal.S != "" {
		sb.WriteString("(assert (not ")
		sb.WriteString(goal.S)
		sb.WriteString("))\n")
	}
	sb.WriteString("(check-sat)\n")
	if wantModel {
		sb.WriteString("(get-model)\n")
	}
	if slice {
		return canonNames(sb.String())
	}
	return sb.String()
}

var bangTok = regexp.MustCompile(`[A-Za-z_][A-Za-z0-9_.$@#]*(![A-Za-z0-9_.$@#]+)+`)

// canonNames renumbers the fresh constants of a (sliced) query in order of appearance, so that the
// same obligation reached along different paths yields the same text (and is solved once).
func canonNames(q string) string {
	m := map[string]string{}
	return bangTok.ReplaceAllStringFunc(q, func(tok string) string {
		if strings.HasPrefix(tok, "bind!") {
			return tok
		}
		if v, ok := m[tok]; ok {
			return v
		}
		base := tok[:strings.Index(tok, "!")]
		v := fmt.Sprintf("%s!c%d", base, len(m))
		m[tok] = v
		return v
	})
}

func (x *Exec) freshName(prefix string) string {
	x.nfresh++
	return fmt.Sprintf("%s!%d", sanitize(prefix), x.nfresh)
}

func sanitize(s string) string {
	var sb strings.Builder
	for _, c := range s {
		if c >= 'a' && c <= 'z' || c >= 'A' && c <= 'Z' || c >= '0' && c <= '9' || c == '_' || c == '.' {
			sb.WriteRune(c)
		} else {
			sb.WriteByte('_')
		}
	}
	return sb.String()
}

func (x *Exec) fresh(s *State, prefix string, sort Sort) T {
	n := x.freshName(prefix)
	s.decls = append(s.decls, "(declare-const "+n+" "+string(sort)+")")
	return T{n, sort}
}

// define introduces a named constant equal to t (keeps terms small).
func (x *Exec) define(s *State, prefix string, t T) T {
	if len(t.S) < 40 {
		return t
	}
	c := x.fresh(s, prefix, t.Sort)
	s.facts = append(s.facts, mk(SBool, "=", c, t))
	return c
}
