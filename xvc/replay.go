package main

// Replay of solver models against the real code (go test -overlay). Generators are
// registered per obligation family; without one the violation is reported with
// no-failing-input-found and the solver output.

func tryReplay(cfg *runConfig, p *Program, prop, obligation string, s *oblSummary) (path string, reproduced bool) {
	return "", false
}
