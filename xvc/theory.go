package main

// Spec-level theories (SMT-LIB text under /verif/theory): signatures are read from
// declare-fun / define-fun lines so that contract expressions can call them.

import (
	"os"
	"path/filepath"
	"regexp"
	"sort"
	"strings"
)

type FunSig struct {
	Args []Sort
	Ret  Sort
}

type Theory struct {
	Funs   map[string]FunSig
	Decls  string // sorts + function declarations (always included)
	Axioms string // assertions (included when a function asks for the theory)
	Text   string
	NAxioms int
}

var declRe = regexp.MustCompile(`^\(declare-fun\s+(\S+)\s+\(([^)]*)\)\s+(.+)\)\s*$`)
var defRe = regexp.MustCompile(`^\(define-fun(?:-rec)?\s+(\S+)\s+\(((?:\([^)]*\)\s*)*)\)\s+(\S+|\([^)]*\))`)
var constRe = regexp.MustCompile(`^\(declare-const\s+(\S+)\s+(.+)\)\s*$`)

func loadTheory(dir string) (*Theory, error) {
	th := &Theory{Funs: map[string]FunSig{}}
	files, _ := filepath.Glob(filepath.Join(dir, "*.smt2"))
	sort.Strings(files)
	for _, f := range files {
		b, err := os.ReadFile(f)
		if err != nil {
			return nil, err
		}
		for _, block := range splitSexprs(string(b)) {
			line := strings.Join(strings.Fields(block), " ")
			switch {
			case strings.HasPrefix(line, "(declare-fun"):
				if m := declRe.FindStringSubmatch(line); m != nil {
					ret := Sort(strings.TrimSpace(m[3]))
					if ret == "Rune" {
						ret = SBV32
					}
					th.Funs[m[1]] = FunSig{Args: sorts(m[2]), Ret: ret}
				}
				th.Decls += line + "\n"
			case strings.HasPrefix(line, "(declare-const"):
				if m := constRe.FindStringSubmatch(line); m != nil {
					th.Funs[m[1]] = FunSig{Ret: Sort(strings.TrimSpace(m[2]))}
				}
				th.Decls += line + "\n"
			case strings.HasPrefix(line, "(define-fun"):
				if m := defRe.FindStringSubmatch(line); m != nil {
					var as []Sort
					for _, pm := range regexp.MustCompile(`\(\s*\S+\s+([^()]+|\([^)]*\))\s*\)`).FindAllStringSubmatch(m[2], -1) {
						as = append(as, Sort(strings.TrimSpace(pm[1])))
					}
					th.Funs[m[1]] = FunSig{Args: as, Ret: Sort(strings.TrimSpace(m[3]))}
				}
				th.Decls += line + "\n"
			case strings.HasPrefix(line, "(declare-sort"), strings.HasPrefix(line, "(define-sort"), strings.HasPrefix(line, "(declare-datatypes"):
				th.Decls += line + "\n"
			case strings.HasPrefix(line, "(assert"):
				th.Axioms += line + "\n"
				th.NAxioms++
			}
		}
	}
	return th, nil
}

func sorts(s string) []Sort {
	var out []Sort
	for _, b := range splitSexprs(s) {
		so := Sort(strings.Join(strings.Fields(b), " "))
		if so == "Rune" {
			so = SBV32 // (define-sort Rune () (_ BitVec 32))
		}
		out = append(out, so)
	}
	return out
}

// splitSexprs splits text into top-level s-expressions / atoms, dropping ; comments.
func splitSexprs(src string) []string {
	var out []string
	var lines []string
	for _, l := range strings.Split(src, "\n") {
		if i := strings.Index(l, ";"); i >= 0 {
			l = l[:i]
		}
		lines = append(lines, l)
	}
	src = strings.Join(lines, "\n")
	depth, start := 0, -1
	for i := 0; i < len(src); i++ {
		c := src[i]
		switch {
		case c == '(':
			if depth == 0 && start < 0 {
				start = i
			}
			depth++
		case c == ')':
			depth--
			if depth == 0 && start >= 0 {
				out = append(out, src[start:i+1])
				start = -1
			}
		case depth == 0 && c != ' ' && c != '\n' && c != '\t' && c != '\r':
			if start < 0 {
				start = i
			}
			if i+1 == len(src) || strings.ContainsRune(" \n\t\r()", rune(src[i+1])) {
				out = append(out, src[start:i+1])
				start = -1
			}
		}
	}
	return out
}
