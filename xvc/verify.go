package main

// Per-function verification driver: entry assumptions, exit obligations.

import (
	"os"
	"fmt"
	"go/token"
	"go/types"
	"path/filepath"
	"strings"

	"golang.org/x/tools/go/ssa"
)

// evalPhaseFiles: functions of these files run while a compiled expression is evaluated;
// their implicit run-time checks are the C15 sweep.
var evalPhaseFiles = map[string]bool{"query.go": true, "func.go": true, "operator.go": true, "cache.go": true, "xpath.go": true, "func_go110.go": true}

// compile-phase entry points living in eval-phase files
var notSwept = map[string]bool{"Compile": true, "CompileWithNS": true, "MustCompile": true, "Select": true, "(*Expr).String": true,
	"init": true, "NewLoadingCache": true, "defaultRegexpCache": true}

func (p *Program) fileOf(f *ssa.Function) string {
	pos := f.Pos()
	if !pos.IsValid() && f.Parent() != nil {
		return p.fileOf(f.Parent())
	}
	return filepath.Base(p.Prog.Fset.Position(pos).Filename)
}

func (p *Program) inSweep(f *ssa.Function) bool {
	root := f
	for root.Parent() != nil {
		root = root.Parent()
	}
	if notSwept[p.Names[root]] && !(p.Names[root] == "init" && f != root) {
		// (function literals of package-level initialisers run in the evaluation phase: swept)
		return false
	}
	if f.Parent() != nil && p.fileOf(f) == "build.go" {
		return true // function literals of the builder end up in query fields and run during evaluation
	}
	return evalPhaseFiles[p.fileOf(f)]
}

type FuncResult struct {
	Name    string
	Capped  bool
	Unsup   []string
	Paths   int
	Assumed []string
}

func (p *Program) verifyFunction(name string, tier string, prop string, sink func(*Obligation)) *FuncResult {
	f := p.Funcs[name]
	fc := p.Ctr.Funcs[name]
	if fc != nil && fc.Theory && len(fc.TheoryProps) > 0 && !hasProp(fc.TheoryProps, prop) {
		cp := *fc
		cp.Theory = false
		fc = &cp
	}
	x := &Exec{p: p, root: f, rootName: name, fnc: fc, mode: "bv", sink: sink, maxPaths: 40000, tier: tier, prop: prop, assumed: map[string]bool{}}
	if fc != nil && fc.Mode != "" {
		x.mode = fc.Mode
	}
	if fc != nil && fc.Theory {
		x.needTheory = true
	}
	x.sweep = p.inSweep(f)
	if recv := f.Signature.Recv(); recv != nil && (fc == nil || (!fc.HasMod && len(fc.Preserves) == 0)) {
		// a method that implements a contracted interface method inherits that contract's frame
		for key, ic := range p.Ctr.Ifaces {
			i := strings.LastIndex(key, ".")
			if key[i+1:] != f.Name() || (!ic.HasMod && len(ic.Preserves) == 0) {
				continue
			}
			it := p.lookupType(key[:i])
			if it == nil || !types.Implements(recv.Type(), it.Underlying().(*types.Interface)) {
				continue
			}
			nf := &FuncContract{Key: name}
			if fc != nil {
				cp := *fc
				nf = &cp
			}
			nf.HasMod, nf.Modifies = ic.HasMod, ic.Modifies
			nf.Preserves = ic.Preserves
			x.fnc = nf
		}
	}
	res := &FuncResult{Name: name}
	if len(f.Blocks) == 0 {
		return res
	}
	s := &State{heap: map[string]T{}, heap0: map[string]T{}, lits: map[string]T{}, locks: map[string]string{}, ghost: map[string]T{}, dirty: map[string]bool{}, escaped: map[string]bool{}, navOwner: map[string]string{}}
	// parameters
	var args []Val
	for i, prm := range f.Params {
		v := x.freshVal(s, "p."+prm.Name(), prm.Type())
		if i == 0 && f.Signature.Recv() != nil {
			switch prm.Type().Underlying().(type) {
			case *types.Pointer, *types.Signature:
				// methods are only reached through non-nil receivers (boxing sites check this: nonnil-box)
				s.assume(Not(Eq(v.T, IntLit(0))))
			}
		}
		args = append(args, v)
	}
	var binds []Val
	for _, fv := range f.FreeVars {
		v := x.freshVal(s, "fv."+fv.Name(), fv.Type())
		if v.K == vScalar {
			s.assume(Not(Eq(v.T, IntLit(0))))
			if ci := p.cellOfFreeVar(fv); ci != nil {
				v.Key = ci.key
			}
		}
		binds = append(binds, v)
	}
	// entry frame is needed for contract evaluation: build it by hand
	entryFrame := &Frame{fn: f, env: map[ssa.Value]Val{}, names: map[string]Val{}, addrs: map[string]Val{}, lets: map[string]Val{},
		measures: map[*ssa.BasicBlock][]T{}, inLoop: map[*ssa.BasicBlock]bool{}, args: args}
	for i, prm := range f.Params {
		entryFrame.names[prm.Name()] = args[i]
		entryFrame.env[prm] = args[i]
	}
	for i, fv := range f.FreeVars {
		entryFrame.addrs[fv.Name()] = binds[i]
		entryFrame.env[fv] = binds[i]
	}
	s.frames = []*Frame{entryFrame}
	// fnself: the identity of the function value under verification (for ghost flags keyed by it)
	if x.thisFn.S == "" {
		x.thisFn = x.fresh(s, "thisfn", SInt)
	}
	entryFrame.lets["fnself"] = scalar(x.thisFn)
	// what the captured variables hold at entry is well-typed and already exists
	for i, fv := range f.FreeVars {
		et := fv.Type().(*types.Pointer).Elem()
		switch et.Underlying().(type) {
		case *types.Pointer, *types.Interface:
			v := x.load(s, binds[i], et, false)
			x.assumeLoaded(s, v, et)
			x.assumeEntryAllocated(s, binds[i], v, et)
		}
	}
	// the context cursor of an iterator parameter is an existing navigator object
	if x.fnc != nil && x.fnc.Theory {
		for i, prm := range f.Params {
			if typeStr(prm.Type()) != "iterator" {
				continue
			}
			env := &specEnv{x: x, s: s, where: "entry cursor", vars: map[string]sval{"t": {v: args[i], typ: prm.Type()}}}
			if cv, err := env.evalVal("cur(t)"); err == nil {
				s.assume(Implies(Not(Eq(args[i].T, T{"inil", SIface})), Not(Eq(cv.v.T, T{"inil", SIface}))))
				x.assumeIfaceInv(s, cv.v.T, p.lookupType("NodeNavigator"))
			}
		}
	}
	if name == "init" {
		// the initialiser runs once: its guard variable is still false
		g := x.heapSym(s, "G:init$guard", SBool)
		s.assume(Not(g))
	}
	// global invariants established by init
	if name != "init" {
		if ic := p.Ctr.Funcs["init"]; ic != nil {
			for _, cl := range ic.clauses("ensures") {
				env := x.specEnvFor(s, "global invariant")
				if t, err := env.evalBool(cl.Expr); err == nil {
					s.assume(t)
				} else {
					x.unsupported("global invariant: %v", err)
				}
			}
		}
	}
	if fc != nil {
		for _, an := range fc.Uses {
			ax := p.Ctr.Axioms[an]
			if ax == nil {
				x.unsupported("unknown axiom %s", an)
				continue
			}
			env := x.specEnvFor(s, "axiom")
			if t, err := env.evalBool(ax.Expr); err == nil {
				s.assume(t)
				x.assumed["axiom "+an+" (definition of a specification predicate): "+ax.Expr] = true
			} else {
				x.unsupported("axiom %s: %v", an, err)
			}
		}
	}
	var fieldC *FuncContract
	if fc != nil {
		if fc.Conforms != "" {
			fieldC = p.Ctr.Fields[fc.Conforms]
			if fieldC == nil {
				x.unsupported("conforms: unknown field contract %s", fc.Conforms)
			}
		}
		if fieldC != nil {
			// a function stored where the field contract applies may only rely on what that contract requires
			env0 := x.fieldEnv(s, fieldC, f, args, nil)
			for _, cl := range fieldC.clauses("requires") {
				if t, err := env0.evalBool(cl.Expr); err == nil {
					s.assume(t)
				} else {
					x.unsupported("requires of %s: %v", fieldC.Key, err)
				}
			}
		}
		for _, kind := range []string{"captures", "assume", "requires"} {
			for i, cl := range fc.clauses(kind) {
				env := x.specEnvFor(s, kind)
				t, err := env.evalBool(cl.Expr)
				if err != nil {
					x.unsupported("%s of %s: %v", kind, name, err)
					continue
				}
				if kind == "requires" && fieldC != nil {
					x.oblige(s, "conforms-requires", strings.TrimPrefix(fieldC.Key, "field ")+"#"+clauseLabel(cl, i), t, f.Pos(), cl.Props)
				}
				s.assume(t)
				if kind == "assume" {
					x.assumed["assumed in "+name+" ("+cl.Label+"): "+cl.Expr] = true
				}
			}
		}
		for _, cl := range fc.clauses("let") {
			env := x.specEnvFor(s, "let")
			v, err := env.evalVal(cl.Expr)
			if err != nil {
				x.unsupported("let %s: %v", cl.Name, err)
				continue
			}
			entryFrame.lets[cl.Name] = v.v
		}
		x.applyInstances(s, fnApplies(fc))
	}
	if fieldC != nil {
		env := x.fieldEnv(s, fieldC, f, args, nil)
		for _, cl := range fieldC.clauses("requires") {
			t, err := env.evalBool(cl.Expr)
			if err != nil {
				x.unsupported("requires of %s: %v", fieldC.Key, err)
				continue
			}
			s.assume(t)
		}
	}
	// methods implementing a contracted interface may rely on that contract's requires
	if recv := f.Signature.Recv(); recv != nil {
		for key, ic := range p.Ctr.Ifaces {
			i := strings.LastIndex(key, ".")
			if key[i+1:] != f.Name() {
				continue
			}
			it := p.lookupType(key[:i])
			if it == nil || !types.Implements(recv.Type(), it.Underlying().(*types.Interface)) {
				continue
			}
			env := x.fieldEnv(s, ic, f, args, nil)
			for _, cl := range ic.clauses("requires") {
				if t, err := env.evalBool(cl.Expr); err == nil {
					s.assume(t)
				} else {
					x.unsupported("requires of %s: %v", ic.Key, err)
				}
			}
		}
	}
	lets := entryFrame.lets
	x.rootLets = lets
	s.frames = nil
	// vacuity guard: the entry assumptions must be satisfiable
	x.coverEntry(s)
	x.execFunction(s, f, args, binds, func(s2 *State, results []Val) {
		x.atReturn(s2, f, fc, fieldC, args, binds, results, lets)
	})
	// the executor creates its own frame; hand the lets over
	res.Capped = x.capped
	res.Paths = x.paths
	for u := range x.unsup {
		res.Unsup = append(res.Unsup, u)
	}
	for a := range x.assumed {
		res.Assumed = append(res.Assumed, a)
	}
	return res
}

func (x *Exec) coverEntry(s *State) {
	if false && x.fnc != nil && x.fnc.NoCover { // cover queries run for these too: `unknown` passes, only a proved contradiction is reported
		return // satisfiable queries over the quantified theory do not terminate; covered by the finite-carrier check
	}
	x.cover(s, "entry")
}

// fieldEnv binds the parameter names of a field/iface contract to a function's actual parameters.
func (x *Exec) fieldEnv(s *State, fieldC *FuncContract, f *ssa.Function, args []Val, results []Val) *specEnv {
	env := &specEnv{x: x, s: s, where: "contract " + fieldC.Key, vars: map[string]sval{}}
	params := f.Params
	off := 0
	if f.Signature.Recv() != nil {
		env.vars["self"] = sval{v: args[0], typ: params[0].Type()}
		off = 1
	} else if strings.HasPrefix(fieldC.Key, "field type ") {
		env.vars["self"] = sval{v: scalar(x.funcRef(s, f)), typ: f.Signature}
	}
	for i, pn := range fieldC.Params {
		if off+i < len(params) {
			env.vars[pn] = sval{v: args[off+i], typ: params[off+i].Type()}
		}
	}
	// fnself: the function value itself (for a closure under verification: some function value)
	if x.thisFn.S == "" {
		x.thisFn = x.fresh(s, "thisfn", SInt)
	}
	env.vars["fnself"] = sval{v: scalar(x.thisFn), typ: f.Signature}
	rt := f.Signature.Results()
	if results != nil {
		if rt.Len() == 1 {
			env.vars["result"] = sval{v: results[0], typ: rt.At(0).Type()}
			if len(fieldC.Results) == 1 {
				env.vars[fieldC.Results[0]] = env.vars["result"]
			}
		} else {
			for i := 0; i < rt.Len(); i++ {
				env.vars[fmt.Sprintf("result%d", i)] = sval{v: results[i], typ: rt.At(i).Type()}
				if i < len(fieldC.Results) {
					env.vars[fieldC.Results[i]] = env.vars[fmt.Sprintf("result%d", i)]
				}
			}
		}
	}
	return env
}

func (x *Exec) atReturn(s *State, f *ssa.Function, fc, fieldC *FuncContract, args []Val, binds []Val, results []Val, lets map[string]Val) {
	if s.dead {
		return
	}
	// a frame for name resolution in ensures clauses (parameters at entry, results)
	fr := &Frame{fn: f, env: map[ssa.Value]Val{}, names: map[string]Val{}, addrs: map[string]Val{}, lets: lets, args: args,
		measures: map[*ssa.BasicBlock][]T{}, inLoop: map[*ssa.BasicBlock]bool{}}
	for i, prm := range f.Params {
		fr.names[prm.Name()] = args[i]
		fr.env[prm] = args[i]
	}
	for i, fv := range f.FreeVars {
		if i < len(binds) {
			fr.addrs[fv.Name()] = binds[i]
			fr.env[fv] = binds[i]
		}
	}
	if lf := s.lastFrame; lf != nil && lf.fn == f {
		// locals keep the value they had when the function returned
		isParam := map[string]bool{}
		for _, prm := range f.Params {
			isParam[prm.Name()] = true
		}
		for _, fv := range f.FreeVars {
			isParam[fv.Name()] = true
		}
		for n, v := range lf.names {
			if !isParam[n] {
				fr.names[n] = v
			}
		}
		for n, v := range lf.addrs {
			if !isParam[n] {
				fr.addrs[n] = v
			}
		}
		for v, val := range lf.env {
			if _, ok := fr.env[v]; !ok {
				fr.env[v] = val
			}
		}
		fr.loopHeads = lf.loopHeads // at(L, e) in an ensures clause: the last iteration of L on this path
		fr.loopHeadNames = lf.loopHeadNames
		fr.ranCond = lf.ranCond
		fr.callArgs = lf.callArgs
	}
	s.frames = append(s.frames, fr)
	defer func() { s.frames = s.frames[:len(s.frames)-1] }()
	rt := f.Signature.Results()
	bindResults := func(env *specEnv) {
		if rt.Len() == 1 {
			env.vars["result"] = sval{v: results[0], typ: rt.At(0).Type()}
			if n := rt.At(0).Name(); n != "" {
				env.vars[n] = env.vars["result"]
			}
		} else {
			for i := 0; i < rt.Len() && i < len(results); i++ {
				env.vars[fmt.Sprintf("result%d", i)] = sval{v: results[i], typ: rt.At(i).Type()}
				if n := rt.At(i).Name(); n != "" {
					env.vars[n] = env.vars[fmt.Sprintf("result%d", i)]
				}
			}
		}
		// free variables keep their meaning (cell contents)
	}
	pos := f.Pos()
	if fc != nil {
		{
			e := x.specEnvFor(s, "ensures")
			bindResults(e)
			x.applyGhostSets(s, fc, e)
		}
		x.applyInstancesEnv(s, fnApplies(fc), func() *specEnv { e := x.specEnvFor(s, "ensures"); bindResults(e); return e })
		for i, cl := range fc.clauses("ensures") {
			env := x.specEnvFor(s, "ensures")
			bindResults(env)
			t, err := env.evalBool(cl.Expr)
			if err != nil {
				x.unsupported("ensures of %s: %v", x.rootName, err)
				continue
			}
			props := cl.Props
			if props == nil {
				props = fc.Props
			}
			x.oblige(s, "ensures", clauseLabel(cl, i), t, pos, props)
		}
	}
	if fieldC != nil {
		env := x.fieldEnv(s, fieldC, f, args, results)
		for i, cl := range fieldC.clauses("ensures") {
			t, err := env.evalBool(cl.Expr)
			if err != nil {
				x.unsupported("ensures of %s: %v", fieldC.Key, err)
				continue
			}
			props := cl.Props
			if props == nil {
				props = fieldC.Props
			}
			x.oblige(s, "conforms", strings.TrimPrefix(fieldC.Key, "field ")+"#"+clauseLabel(cl, i), t, pos, props)
		}
	}
	// interface refinement: methods of types implementing a contracted interface
	x.refines(s, f, args, results, pos)
	// type invariants of objects allocated here
	x.checkFreshInvs(s, f, pos)
	// lock discipline: nothing held on return
	for k, v := range s.locks {
		if v != "" {
			x.oblige(s, "locks", "held-at-return:"+sanitize(k), TFalse, pos, nil)
		}
	}
	if x.coverN < 4 {
		x.coverN++
		x.cover(s, "return")
	}
}

// refines: a method of a package type must satisfy the iface contract of the interface method it implements.
func (x *Exec) refines(s *State, f *ssa.Function, args []Val, results []Val, pos token.Pos) {
	recv := f.Signature.Recv()
	if recv == nil {
		return
	}
	for key, ic := range x.p.Ctr.Ifaces {
		i := strings.LastIndex(key, ".")
		in, mn := key[:i], key[i+1:]
		if mn != f.Name() {
			continue
		}
		it := x.p.lookupType(in)
		if it == nil || !types.Implements(recv.Type(), it.Underlying().(*types.Interface)) {
			continue
		}
		env := x.fieldEnv(s, ic, f, args, results)
		// self of an interface contract is the interface value
		env.vars["self"] = sval{v: scalar(x.box(s, args[0], recv.Type())), typ: it}
		for j, cl := range ic.clauses("ensures") {
			t, err := env.evalBool(cl.Expr)
			if err != nil {
				x.unsupported("ensures of %s: %v", ic.Key, err)
				continue
			}
			props := cl.Props
			if props == nil {
				props = ic.Props
			}
			x.oblige(s, "refines", key+"#"+clauseLabel(cl, j), t, pos, props)
		}
	}
}

// flushFreshInvs checks the invariants of the objects allocated so far and hands them over to
// the global invariant (used before loop state is forgotten).
func (x *Exec) flushFreshInvs(s *State, pos token.Pos) {
	x.checkFreshInvs(s, nil, pos)
	s.allocTypes = nil
}

func (x *Exec) checkFreshInvs(s *State, f *ssa.Function, pos token.Pos) {
	// every Alloc of a struct type with an invariant that happened on this path
	fr := s.frames[len(s.frames)-1]
	_ = fr
	for _, rec := range s.allocTypes {
		if len(x.p.Ctr.Invs[typeStr(rec.t)]) == 0 {
			continue
		}
		x.oblige(s, "inv-established", typeStr(rec.t)+"@"+rec.site, x.invTerm(s, rec.ref, rec.t), pos, nil)
	}
}

func fnApplies(fc *FuncContract) []*Clause {
	var out []*Clause
	for _, c := range fc.Clauses {
		if c.Kind == "apply" && c.Loop == -2 {
			out = append(out, c)
		}
	}
	return out
}

// axiomConsistency builds the query "all navigator-tree axioms used in this run hold in the sample
// document of theory/sample_tree.model": satisfiable, or the axioms are contradictory. Functions
// verified under `theory nav` have no cover queries of their own (satisfiability over the quantified
// theory does not terminate in general), so this is their vacuity guard.
func (p *Program) axiomConsistency(names []string, modelFile string) (string, error) {
	x := &Exec{p: p, mode: "bv", sink: func(*Obligation) {}, maxPaths: 1, tier: "quick", assumed: map[string]bool{}}
	x.needTheory = true
	s := &State{heap: map[string]T{}, heap0: map[string]T{}, lits: map[string]T{}, locks: map[string]string{}, ghost: map[string]T{}, dirty: map[string]bool{}, escaped: map[string]bool{}, navOwner: map[string]string{}}
	for _, n := range names {
		ax := p.Ctr.Axioms[n]
		if ax == nil {
			continue
		}
		env := &specEnv{x: x, s: s, where: "axiom"}
		t, err := env.evalBool(ax.Expr)
		if err != nil {
			return "", fmt.Errorf("axiom %s: %v", n, err)
		}
		s.assume(t)
	}
	b, err := os.ReadFile(modelFile)
	if err != nil {
		return "", err
	}
	q := x.query(s, T{}, false)
	// the sample document goes in front of (check-sat)
	i := strings.LastIndex(q, "(check-sat)")
	if i < 0 {
		return "", fmt.Errorf("no check-sat in query")
	}
	return q[:i] + string(b) + "\n" + q[i:], nil
}
