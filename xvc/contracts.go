package main

// Parser for the //@ contract blocks kept in /repo/verif_contracts.go.

import (
	"bufio"
	"fmt"
	"os"
	"regexp"
	"strconv"
	"strings"
)

type Clause struct {
	Kind  string // requires ensures captures invariant decreases let assume-entry
	Label string
	Props []string
	Expr  string
	Loop  int
	Name  string // let NAME
	Line  int
}

type FuncContract struct {
	Key      string // ssa function name, or "iface I.m", "field T.f"
	Props    []string
	Mode     string // "bv" (default) or "int"
	Inline   bool
	Opaque   bool // callers use only the contract, body not verified here (never for package code; used for iface/field)
	Clauses  []*Clause
	Modifies []string
	HasMod   bool
	Panics   []string
	Conforms string
	Params   []string // for field/iface contracts: parameter names
	Results  []string
	Line     int
	Sweep    bool // safety obligations of this function count for C15
	Trusted  bool
	Guards   []string // locations guarded by the lock this function takes
	Theory   bool     // include the theory axioms from the start
	TheoryProps []string // when non-empty: the theory is only switched on for checks of these properties
	NoCover  bool     // quantified navigator axioms: satisfiability (cover) queries do not terminate
	NoPanic  bool     // no panic may leave this function
	MayPanic bool     // callers must expect a panic
	Preserves []string // heap key patterns the function leaves untouched (except on fresh objects)
	OwnsNavs []string // slices of navigators this function created: callees do not move them (assumed ownership)
	KeepsCursor bool // assumed: the callee moves only navigators it created, never the caller's context cursor
	Pure bool // deterministic and side-effect free: a call is an uninterpreted function of the arguments
	Uses []string // names of axioms assumed at entry
	Receiver string // parameter that plays the receiver for ghost updates / disjoint-operands of a plain function
	DisjointOperands bool // assumed: other query values in the caller's scope are not sub-queries of the receiver
	TreeFrame bool    // assumed: the call does not write the caller's own receiver object (query trees are trees)
}

type Define struct {
	Name   string
	Params []string
	Body   string
	Axiom  bool // `instance`: a defining equation of a specification function, assumed where applied
}

type Contracts struct {
	Funcs   map[string]*FuncContract
	Ifaces  map[string]*FuncContract // "query.Select"
	Fields  map[string]*FuncContract // "functionQuery.Func"
	Invs    map[string][]*Clause      // type name -> invariants over self
	Defines map[string]*Define
	Lemmas  []*Clause
	FieldClass map[string]map[string]string // type -> field -> class
	Axioms map[string]*Clause // named spec-level axioms (definitions of spec predicates over the heap)
	GhostFields map[string]bool // "T.f": specification-only int field of struct type T (heap key F:T.f)
	File    string
}

func (fc *FuncContract) clauses(kind string) []*Clause {
	var out []*Clause
	if fc == nil {
		return nil
	}
	for _, c := range fc.Clauses {
		if c.Kind == kind {
			out = append(out, c)
		}
	}
	return out
}

var labelRe = regexp.MustCompile(`^\[([^\]]*)\]\s*`)

func parseContracts(path string) (*Contracts, error) {
	f, err := os.Open(path)
	if err != nil {
		return nil, err
	}
	defer f.Close()
	c := &Contracts{Funcs: map[string]*FuncContract{}, Ifaces: map[string]*FuncContract{}, Fields: map[string]*FuncContract{},
		Invs: map[string][]*Clause{}, Defines: map[string]*Define{}, File: path}
	var cur *FuncContract
	var last *Clause
	var lastDef *Define
	sc := bufio.NewScanner(f)
	sc.Buffer(make([]byte, 1<<20), 1<<20)
	ln := 0
	for sc.Scan() {
		ln++
		line := strings.TrimSpace(sc.Text())
		if strings.HasPrefix(line, "//@+") {
			rest := strings.TrimSpace(line[4:])
			if last != nil {
				last.Expr += " " + rest
			} else if lastDef != nil {
				lastDef.Body += " " + rest
			}
			continue
		}
		if !strings.HasPrefix(line, "//@") {
			continue
		}
		line = strings.TrimSpace(line[3:])
		if line == "" || strings.HasPrefix(line, "#") {
			continue
		}
		if i := strings.Index(line, " //"); i >= 0 {
			line = strings.TrimSpace(line[:i])
		}
		kw, rest := splitWord(line)
		if i := strings.Index(kw, "["); i > 0 {
			rest = kw[i:] + " " + rest
			kw = kw[:i]
		}
		last, lastDef = nil, nil
		switch kw {
		case "func":
			cur = &FuncContract{Key: rest, Line: ln}
			if _, dup := c.Funcs[rest]; dup {
				return nil, fmt.Errorf("%s:%d: duplicate contract for %s", path, ln, rest)
			}
			c.Funcs[rest] = cur
		case "iface", "field":
			// iface query.Select(t) result   /  field functionQuery.Func(q, t) result
			name, params, results := parseSig(rest)
			cur = &FuncContract{Key: kw + " " + name, Params: params, Results: results, Line: ln, Opaque: true}
			if kw == "iface" {
				c.Ifaces[name] = cur
			} else {
				c.Fields[name] = cur
			}
		case "inv":
			i := strings.Index(rest, ":")
			if i < 0 {
				return nil, fmt.Errorf("%s:%d: inv needs 'Type: expr'", path, ln)
			}
			tn := strings.TrimSpace(rest[:i])
			cl := &Clause{Kind: "inv", Expr: strings.TrimSpace(rest[i+1:]), Line: ln}
			c.Invs[tn] = append(c.Invs[tn], cl)
			last = cl
			cur = nil
		case "fields":
			// fields T: config a b; state c; ...
			i := strings.Index(rest, ":")
			tn := strings.TrimSpace(rest[:i])
			if c.FieldClass == nil {
				c.FieldClass = map[string]map[string]string{}
			}
			c.FieldClass[tn] = map[string]string{}
			for _, grp := range strings.Split(rest[i+1:], ";") {
				w := strings.Fields(grp)
				if len(w) == 0 {
					continue
				}
				for _, f := range w[1:] {
					c.FieldClass[tn][f] = w[0]
				}
			}
			cur = nil
		case "ghostfield":
			// ghostfield T.f : a specification-only int field (history variable) of struct type T;
			// it lives in the field heap F:T.f, so `modifies` clauses and frames treat it as a field
			if c.GhostFields == nil {
				c.GhostFields = map[string]bool{}
			}
			c.GhostFields[strings.TrimSpace(rest)] = true
			cur = nil
		case "define", "instance":
			i := strings.Index(rest, "=")
			head := strings.TrimSpace(rest[:i])
			name, params, _ := parseSig(head)
			d := &Define{Name: name, Params: params, Body: strings.TrimSpace(rest[i+1:]), Axiom: kw == "instance"}
			c.Defines[name] = d
			lastDef = d
			cur = nil
		case "axiom":
			cl := &Clause{Kind: "axiom", Line: ln}
			cl.Label, cl.Props, rest = parseLabel(rest)
			cl.Expr = rest
			if c.Axioms == nil {
				c.Axioms = map[string]*Clause{}
			}
			c.Axioms[cl.Label] = cl
			last = cl
			cur = nil
		case "lemma":
			cl := &Clause{Kind: "lemma", Line: ln}
			cl.Label, cl.Props, rest = parseLabel(rest)
			cl.Expr = rest
			c.Lemmas = append(c.Lemmas, cl)
			last = cl
			cur = nil
		default:
			if cur == nil {
				return nil, fmt.Errorf("%s:%d: clause %q outside a func block", path, ln, kw)
			}
			switch kw {
			case "props":
				cur.Props = strings.Fields(rest)
			case "mode":
				cur.Mode = rest
			case "inline":
				cur.Inline = true
			case "sweep":
				cur.Sweep = true
			case "trusted":
				cur.Trusted = true
			case "modifies":
				cur.HasMod = true
				for _, m := range strings.Split(rest, ",") {
					m = strings.TrimSpace(m)
					if m != "" && m != "nothing" {
						cur.Modifies = append(cur.Modifies, m)
					}
				}
			case "panics":
				s, err := strconv.Unquote(rest)
				if err != nil {
					return nil, fmt.Errorf("%s:%d: panics needs a quoted prefix", path, ln)
				}
				cur.Panics = append(cur.Panics, s)
			case "conforms":
				cur.Conforms = rest
			case "guards":
				for _, m := range strings.Split(rest, ",") {
					if m = strings.TrimSpace(m); m != "" {
						cur.Guards = append(cur.Guards, m)
					}
				}
			case "theory":
				// theory stream|nav [for C04 C05]
				cur.Theory = true
				if strings.Contains(rest, "nav") {
					cur.NoCover = true
				}
				if i := strings.Index(rest, " for "); i >= 0 {
					cur.TheoryProps = strings.Fields(rest[i+5:])
				}
			case "tree-frame":
				cur.TreeFrame = true
			case "disjoint-operands":
				cur.DisjointOperands = true
			case "receiver":
				cur.Receiver = rest
			case "pure":
				cur.Pure = true
			case "keeps-cursor":
				cur.KeepsCursor = true
			case "owns-navigators":
				cur.OwnsNavs = append(cur.OwnsNavs, strings.Fields(rest)...)
			case "uses":
				cur.Uses = append(cur.Uses, strings.Fields(rest)...)
			case "preserves":
				for _, m := range strings.Split(rest, ",") {
					if m = strings.TrimSpace(m); m != "" {
						cur.Preserves = append(cur.Preserves, strings.TrimSuffix(strings.TrimPrefix(m, "heap("), ")"))
					}
				}
			case "nopanic":
				cur.NoPanic = true
			case "maypanic":
				cur.MayPanic = true
			case "ensures-assumed":
				// assumed at call sites, not an obligation of implementations (listed in evidence)
				cl := &Clause{Kind: "ensures-assumed", Line: ln}
				cl.Label, cl.Props, rest = parseLabel(rest)
				cl.Expr = rest
				cur.Clauses = append(cur.Clauses, cl)
				last = cl
			case "apply":
				cl := &Clause{Kind: "apply", Expr: rest, Loop: -2, Line: ln}
				cur.Clauses = append(cur.Clauses, cl)
				last = cl
			case "requires", "ensures", "captures", "creation", "stores", "assume", "lockinv":
				cl := &Clause{Kind: kw, Line: ln}
				cl.Label, cl.Props, rest = parseLabel(rest)
				cl.Expr = rest
				cur.Clauses = append(cur.Clauses, cl)
				last = cl
			case "ghost":
				// ghost k(self) = expr : history-variable update performed at every call
				i := strings.Index(rest, "=")
				cl := &Clause{Kind: "ghost", Name: strings.TrimSpace(rest[:i]), Expr: strings.TrimSpace(rest[i+1:]), Line: ln}
				cur.Clauses = append(cur.Clauses, cl)
				last = cl
			case "ghostset":
				// ghostset x.f = expr : update of a ghost field, performed where the function returns
				i := strings.Index(rest, "=")
				cl := &Clause{Kind: "ghostset", Name: strings.TrimSpace(rest[:i]), Expr: strings.TrimSpace(rest[i+1:]), Line: ln}
				cur.Clauses = append(cur.Clauses, cl)
				last = cl
			case "decreases":
				// recursion measure (lexicographic tuple): decreases 200 - p.d, 3
				cl := &Clause{Kind: "rdecreases", Expr: rest, Line: ln}
				cur.Clauses = append(cur.Clauses, cl)
				last = cl
			case "let":
				i := strings.Index(rest, "=")
				cl := &Clause{Kind: "let", Name: strings.TrimSpace(rest[:i]), Expr: strings.TrimSpace(rest[i+1:]), Line: ln}
				cur.Clauses = append(cur.Clauses, cl)
				last = cl
			case "loop":
				ks, r2 := splitWord(rest)
				k, err := strconv.Atoi(ks)
				if ks == "*" {
					k, err = -1, nil // every loop of the function
				}
				if err != nil {
					return nil, fmt.Errorf("%s:%d: loop needs an ordinal", path, ln)
				}
				kind, r3 := splitWord(r2)
				if i := strings.Index(kind, "["); i > 0 {
					r3 = kind[i:] + " " + r3
					kind = kind[:i]
				}
				if kind != "invariant" && kind != "decreases" && kind != "apply" {
					return nil, fmt.Errorf("%s:%d: loop clause %q", path, ln, kind)
				}
				cl := &Clause{Kind: kind, Loop: k, Line: ln}
				cl.Label, cl.Props, r3 = parseLabel(r3)
				cl.Expr = r3
				cur.Clauses = append(cur.Clauses, cl)
				last = cl
			default:
				return nil, fmt.Errorf("%s:%d: unknown clause %q", path, ln, kw)
			}
		}
	}
	return c, sc.Err()
}

func splitWord(s string) (string, string) {
	s = strings.TrimSpace(s)
	i := strings.IndexAny(s, " \t")
	if i < 0 {
		return s, ""
	}
	return s[:i], strings.TrimSpace(s[i+1:])
}

func parseLabel(s string) (label string, props []string, rest string) {
	m := labelRe.FindStringSubmatch(s)
	if m == nil {
		return "", nil, s
	}
	rest = s[len(m[0]):]
	label = m[1]
	if i := strings.Index(label, "@"); i >= 0 {
		props = strings.Split(label[i+1:], ",")
		label = label[:i]
	}
	return
}

// exclusive: a clause tagged [label@C02!] is only assumed at call sites while property C02 is checked
// (keeps the verification conditions of the other properties small; assuming less is always sound).
func (c *Clause) exclusive() ([]string, bool) {
	if len(c.Props) == 0 || !strings.HasSuffix(c.Props[len(c.Props)-1], "!") {
		return nil, false
	}
	out := append([]string(nil), c.Props...)
	out[len(out)-1] = strings.TrimRight(out[len(out)-1], "!")
	return out, true
}

// localOnly: `[label@Cxx!!]` — proved where the function returns, never handed to callers (they
// rely on a more abstract clause of the same contract).
func (c *Clause) localOnly() bool {
	return len(c.Props) > 0 && strings.HasSuffix(c.Props[len(c.Props)-1], "!!")
}

// parseSig parses "name(a, b) r1, r2" into its parts.
func parseSig(s string) (name string, params, results []string) {
	i := strings.Index(s, "(")
	if i < 0 {
		return strings.TrimSpace(s), nil, nil
	}
	j := strings.Index(s, ")")
	name = strings.TrimSpace(s[:i])
	for _, p := range strings.Split(s[i+1:j], ",") {
		if p = strings.TrimSpace(p); p != "" {
			params = append(params, p)
		}
	}
	for _, r := range strings.Split(s[j+1:], ",") {
		if r = strings.TrimSpace(r); r != "" {
			results = append(results, r)
		}
	}
	return
}
