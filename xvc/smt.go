package main

// SMT-LIB term construction. Terms are plain strings with a sort attached;
// sharing is obtained by naming every SSA value with its own constant.

import (
	"fmt"
	"math"
	"strconv"
	"strings"
)

type Sort string

const (
	SBool  Sort = "Bool"
	SInt   Sort = "Int"
	SBV64  Sort = "(_ BitVec 64)"
	SBV32  Sort = "(_ BitVec 32)"
	SBV8   Sort = "(_ BitVec 8)"
	SFloat Sort = "F64"
	SStr   Sort = "Str"
	SIface Sort = "Iface"
	SPos   Sort = "Pos"
)

func SArray(i, e Sort) Sort { return Sort("(Array " + string(i) + " " + string(e) + ")") }

type T struct {
	S    string
	Sort Sort
}

func (t T) String() string { return t.S }
func (t T) IsNil() bool    { return t.S == "" }

var (
	TTrue  = T{"true", SBool}
	TFalse = T{"false", SBool}
)

func mk(sort Sort, op string, args ...T) T {
	var sb strings.Builder
	sb.WriteByte('(')
	sb.WriteString(op)
	for _, a := range args {
		sb.WriteByte(' ')
		sb.WriteString(a.S)
	}
	sb.WriteByte(')')
	return T{sb.String(), sort}
}

func Bool(b bool) T {
	if b {
		return TTrue
	}
	return TFalse
}

func Not(a T) T {
	switch a.S {
	case "true":
		return TFalse
	case "false":
		return TTrue
	}
	if strings.HasPrefix(a.S, "(not ") {
		return T{a.S[5 : len(a.S)-1], SBool}
	}
	return mk(SBool, "not", a)
}

func And(as ...T) T {
	var out []T
	for _, a := range as {
		if a.S == "true" {
			continue
		}
		if a.S == "false" {
			return TFalse
		}
		out = append(out, a)
	}
	if len(out) == 0 {
		return TTrue
	}
	if len(out) == 1 {
		return out[0]
	}
	return mk(SBool, "and", out...)
}

func Or(as ...T) T {
	var out []T
	for _, a := range as {
		if a.S == "false" {
			continue
		}
		if a.S == "true" {
			return TTrue
		}
		out = append(out, a)
	}
	if len(out) == 0 {
		return TFalse
	}
	if len(out) == 1 {
		return out[0]
	}
	return mk(SBool, "or", out...)
}

func Implies(a, b T) T {
	if a.S == "true" {
		return b
	}
	if a.S == "false" || b.S == "true" {
		return TTrue
	}
	return mk(SBool, "=>", a, b)
}

func Eq(a, b T) T {
	if a.S == b.S {
		return TTrue
	}
	if a.Sort == SFloat {
		// Go == on floats is IEEE equality; structural identity is "="
		return mk(SBool, "=", a, b)
	}
	return mk(SBool, "=", a, b)
}

func Ite(c, a, b T) T {
	if c.S == "true" {
		return a
	}
	if c.S == "false" {
		return b
	}
	if a.S == b.S {
		return a
	}
	return mk(a.Sort, "ite", c, a, b)
}

func Select(arr, idx T, elem Sort) T { return mk(elem, "select", arr, idx) }
func Store(arr, idx, v T) T          { return mk(arr.Sort, "store", arr, idx, v) }

func IntLit(n int64) T {
	if n < 0 {
		return T{"(- " + strconv.FormatInt(-n, 10) + ")", SInt}
	}
	return T{strconv.FormatInt(n, 10), SInt}
}

func BVLit(n uint64, bits int) T {
	switch bits {
	case 64:
		return T{fmt.Sprintf("#x%016x", n), SBV64}
	case 32:
		return T{fmt.Sprintf("#x%08x", uint32(n)), SBV32}
	case 8:
		return T{fmt.Sprintf("#x%02x", uint8(n)), SBV8}
	}
	panic("bits")
}

func FloatLit(f float64) T {
	b := math.Float64bits(f)
	sign := b >> 63
	exp := (b >> 52) & 0x7ff
	man := b & ((1 << 52) - 1)
	return T{fmt.Sprintf("(fp #b%d #b%011b #x%013x)", sign, exp, man), SFloat}
}

func sortBits(s Sort) int {
	switch s {
	case SBV64:
		return 64
	case SBV32:
		return 32
	case SBV8:
		return 8
	}
	return 0
}

// quoteSym makes an SMT symbol out of an arbitrary name.
func quoteSym(s string) string {
	ok := true
	for _, c := range s {
		if !(c >= 'a' && c <= 'z' || c >= 'A' && c <= 'Z' || c >= '0' && c <= '9' || c == '_' || c == '.' || c == '$' || c == '!') {
			ok = false
			break
		}
	}
	if ok && len(s) > 0 && !(s[0] >= '0' && s[0] <= '9') {
		return s
	}
	return "|" + strings.ReplaceAll(strings.ReplaceAll(s, "|", "!"), "\\", "!") + "|"
}

// Prelude common to every query.
const preludeCore = `(set-option :produce-models true)
(set-logic ALL)
(define-sort F64 () (_ FloatingPoint 11 53))
(declare-sort Str 0)
(declare-fun str.len_ (Str) INTSORT)
(declare-const str.empty Str)
(declare-datatypes ((Iface 0)) (((inil) (iref (itag Int) (iptr Int)) (iflt (ftag Int) (ifv F64)) (istr (stag Int) (isv Str)) (ibool (btag Int) (ibv Bool)) (iint (ntag Int) (iiv INTSORT)))))
(declare-fun fnid (Int) Int)
(declare-fun objtype (Int) Int)
(declare-fun impl (Int Int) Bool)
(declare-fun i2f_ (Int) F64)
(declare-fun f2i_ (F64) Int)
`
