package main

// State merging at the join point of a conditional: instead of exploring the code after an
// if/else (or a switch) once per branch, the states that reach the immediate post-dominator are
// merged into one (guarded facts, ite-style merged values).

import (
	"fmt"
	"sort"

	"golang.org/x/tools/go/ssa"
)

type arrival struct {
	s    *State
	pred *ssa.BasicBlock
}

type joinCollector struct {
	block    *ssa.BasicBlock
	depth    int
	arrivals []arrival
}

// ipdom computes immediate post-dominators of f's blocks (nil = exit).
func (x *Exec) ipdomOf(f *ssa.Function) map[*ssa.BasicBlock]*ssa.BasicBlock {
	if x.ipdoms == nil {
		x.ipdoms = map[*ssa.Function]map[*ssa.BasicBlock]*ssa.BasicBlock{}
	}
	if m, ok := x.ipdoms[f]; ok {
		return m
	}
	n := len(f.Blocks)
	// post-dominator sets by iteration; index n = virtual exit
	full := make([]bool, n+1)
	for i := range full {
		full[i] = true
	}
	pd := make([][]bool, n+1)
	for i := 0; i <= n; i++ {
		pd[i] = append([]bool(nil), full...)
	}
	pd[n] = make([]bool, n+1)
	pd[n][n] = true
	succs := func(b *ssa.BasicBlock) []int {
		if len(b.Succs) == 0 {
			return []int{n}
		}
		var out []int
		for _, s := range b.Succs {
			out = append(out, s.Index)
		}
		return out
	}
	changed := true
	for changed {
		changed = false
		for i := n - 1; i >= 0; i-- {
			b := f.Blocks[i]
			nw := make([]bool, n+1)
			first := true
			for _, s := range succs(b) {
				if first {
					copy(nw, pd[s])
					first = false
				} else {
					for j := range nw {
						nw[j] = nw[j] && pd[s][j]
					}
				}
			}
			nw[i] = true
			for j := range nw {
				if nw[j] != pd[i][j] {
					changed = true
				}
			}
			pd[i] = nw
		}
	}
	m := map[*ssa.BasicBlock]*ssa.BasicBlock{}
	for i, b := range f.Blocks {
		// the immediate post-dominator is the strict post-dominator that every other strict
		// post-dominator also post-dominates
		var best *ssa.BasicBlock
		for j := 0; j < n; j++ {
			if j == i || !pd[i][j] {
				continue
			}
			ok := true
			for k := 0; k < n; k++ {
				if k == i || k == j || !pd[i][k] {
					continue
				}
				if !pd[j][k] { // k must post-dominate j
					ok = false
					break
				}
			}
			if ok {
				best = f.Blocks[j]
				break
			}
		}
		m[b] = best
	}
	x.ipdoms[f] = m
	return m
}

// tryMergeIf explores both branches of an If up to the join block and continues once.
// Returns false when merging does not apply (caller falls back to plain forking).
func (x *Exec) tryMergeIf(s *State, b *ssa.BasicBlock, c T, k cont) bool {
	if x.noMerge {
		return false
	}
	fr := s.top()
	j := x.ipdomOf(fr.fn)[b]
	if j == nil || j.Dominates(b) {
		return false
	}
	jc := &joinCollector{block: j, depth: len(s.frames)}
	base := len(s.facts)
	baseDecls := len(s.decls)
	x.joins = append(x.joins, jc)
	s2 := s.clone()
	s.assume(c)
	s2.assume(Not(c))
	x.execBlock(s, b.Succs[0], b, k)
	x.execBlock(s2, b.Succs[1], b, k)
	x.joins = x.joins[:len(x.joins)-1]
	switch len(jc.arrivals) {
	case 0:
		return true
	case 1:
		a := jc.arrivals[0]
		x.execBlock(a.s, j, a.pred, k)
		return true
	}
	m := x.mergeStates(jc.arrivals, j, base, baseDecls)
	if m == nil {
		// could not merge: continue each arrival separately
		for _, a := range jc.arrivals {
			x.execBlock(a.s, j, a.pred, k)
		}
		return true
	}
	x.enterBlock(m, j, false, k)
	return true
}

func (x *Exec) mergeStates(as []arrival, j *ssa.BasicBlock, base, baseDecls int) *State {
	first := as[0].s
	depth := len(first.frames)
	for _, a := range as {
		if len(a.s.frames) != depth || a.s.dead {
			return nil
		}
		for k2, v := range a.s.locks {
			if first.locks[k2] != v {
				return nil
			}
		}
		if len(a.s.top().defers) != len(first.top().defers) {
			return nil
		}
	}
	// phis of the join block, evaluated per arrival
	for _, a := range as {
		x.evalPhis(a.s, j, a.pred)
	}
	m := first.clone()
	m.facts = m.facts[:base]
	m.decls = append([]string(nil), first.decls[:baseDecls]...)
	seenDecl := map[string]bool{}
	for _, d := range m.decls {
		seenDecl[d] = true
	}
	var guards []T
	for i, a := range as {
		for _, d := range a.s.decls[baseDecls:] {
			if !seenDecl[d] {
				seenDecl[d] = true
				m.decls = append(m.decls, d)
			}
		}
		g := x.fresh(m, fmt.Sprintf("path%d", i), SBool)
		guards = append(guards, g)
		for _, f := range a.s.facts[base:] {
			m.facts = append(m.facts, Implies(g, f))
		}
		for k2, v := range a.s.lits {
			m.lits[k2] = v
		}
		for k2, v := range a.s.navOwner {
			m.navOwner[k2] = v
		}
		for k2, v := range a.s.escaped {
			if v {
				m.escaped[k2] = true
			}
		}
	}
	m.facts = append(m.facts, Or(guards...))
	mergeT := func(name string, vals []T) T {
		same := true
		for _, v := range vals[1:] {
			if v.S != vals[0].S {
				same = false
			}
		}
		if same {
			return vals[0]
		}
		r := x.fresh(m, "m."+name, vals[0].Sort)
		for i, v := range vals {
			if v.Sort != vals[0].Sort {
				return T{}
			}
			m.facts = append(m.facts, Implies(guards[i], Eq2(r, v)))
		}
		return r
	}
	// heaps
	keys := map[string]bool{}
	for _, a := range as {
		for k2 := range a.s.heap {
			keys[k2] = true
		}
	}
	var ks []string
	for k2 := range keys {
		ks = append(ks, k2)
	}
	sort.Strings(ks)
	for _, k2 := range ks {
		var vals []T
		ok := true
		for _, a := range as {
			v, has := a.s.heap[k2]
			if !has {
				// untouched on this path: its entry symbol (declare it in the merged state)
				for _, b := range as {
					if hv, ok2 := b.s.heap0[k2]; ok2 {
						v = hv
						has = true
						break
					}
				}
				if !has {
					ok = false
					break
				}
			}
			vals = append(vals, v)
		}
		if !ok {
			continue
		}
		for _, a := range as {
			if hv, ok2 := a.s.heap0[k2]; ok2 {
				if _, have := m.heap0[k2]; !have {
					m.heap0[k2] = hv
				}
			}
		}
		r := mergeT("H."+k2, vals)
		if r.S == "" {
			return nil
		}
		m.heap[k2] = r
	}
	// fresh references and objects under construction: union
	seenRef := map[string]bool{}
	m.fresh = nil
	for _, a := range as {
		for _, r := range a.s.fresh {
			if !seenRef[r.S] {
				seenRef[r.S] = true
				m.fresh = append(m.fresh, r)
			}
		}
	}
	seenAlloc := map[string]bool{}
	m.allocTypes = nil
	m.freshArrays = nil
	for _, a := range as {
		for _, r := range a.s.allocTypes {
			if !seenAlloc[r.ref.S] {
				seenAlloc[r.ref.S] = true
				m.allocTypes = append(m.allocTypes, r)
			}
		}
		for _, r := range a.s.freshArrays {
			if !seenAlloc["arr"+r.ref.S] {
				seenAlloc["arr"+r.ref.S] = true
				m.freshArrays = append(m.freshArrays, r)
			}
		}
	}
	if len(m.allocTypes) > 0 || len(m.freshArrays) > 0 {
		// an object built on only one of the merged paths: its reference is meaningless on the
		// others; keep paths separate to stay precise
		for _, a := range as[1:] {
			if len(a.s.allocTypes) != len(first.allocTypes) || len(a.s.freshArrays) != len(first.freshArrays) {
				return nil
			}
			for i2 := range a.s.allocTypes {
				if a.s.allocTypes[i2].ref.S != first.allocTypes[i2].ref.S {
					return nil
				}
			}
			for i2 := range a.s.freshArrays {
				if a.s.freshArrays[i2].ref.S != first.freshArrays[i2].ref.S {
					return nil
				}
			}
		}
	}
	// environment of the current frame: merge the phis of the join block; keep everything else from
	// the union (values defined inside a branch are not used after the join except through phis)
	mf := m.top()
	// calls made on only some of the merged paths: remember under which condition they ran
	{
		calls := map[ssa.Value]bool{}
		for _, a := range as {
			for v := range a.s.top().env {
				if _, isCall := v.(*ssa.Call); isCall {
					calls[v] = true
				}
			}
		}
		for v := range calls {
			var conds []T
			everywhere := true
			for i, a := range as {
				fr := a.s.top()
				if _, has := fr.env[v]; !has {
					everywhere = false
					continue
				}
				if c, cond := fr.ranCond[v]; cond {
					everywhere = false
					conds = append(conds, And(guards[i], c))
				} else {
					conds = append(conds, guards[i])
				}
			}
			if everywhere {
				continue
			}
			if mf.ranCond == nil {
				mf.ranCond = map[ssa.Value]T{}
			} else if _, shared := first.top().ranCond[v]; shared || true {
				// mf may still share the map with the first path's frame: copy on write
				cp := make(map[ssa.Value]T, len(mf.ranCond)+1)
				for k2, c2 := range mf.ranCond {
					cp[k2] = c2
				}
				mf.ranCond = cp
			}
			mf.ranCond[v] = Or(conds...)
		}
	}
	for _, a := range as[1:] {
		for v, val := range a.s.top().env {
			if _, ok := mf.env[v]; !ok {
				mf.env[v] = val
			}
		}
	}
	for _, in := range j.Instrs {
		ph, ok := in.(*ssa.Phi)
		if !ok {
			break
		}
		var vals []Val
		for _, a := range as {
			vals = append(vals, a.s.top().env[ph])
		}
		mv, ok2 := x.mergeVals(ph.Name(), vals, mergeT)
		if !ok2 {
			return nil
		}
		mf.env[ph] = mv
		if ph.Comment != "" {
			mf.names[ph.Comment] = mv
		}
	}
	// source-level names that differ between the paths are dropped (contracts resolve them again)
	for n, v := range mf.names {
		for _, a := range as[1:] {
			if w, ok := a.s.top().names[n]; !ok || w.T.S != v.T.S || w.K != v.K {
				if _, isPhi := phiNamed(j, n); !isPhi {
					delete(mf.names, n)
				}
			}
		}
	}
	return m
}

func phiNamed(b *ssa.BasicBlock, name string) (*ssa.Phi, bool) {
	for _, in := range b.Instrs {
		ph, ok := in.(*ssa.Phi)
		if !ok {
			break
		}
		if ph.Comment == name {
			return ph, true
		}
	}
	return nil, false
}

func Eq2(a, b T) T {
	if a.Sort == SFloat {
		return mk(SBool, "=", a, b)
	}
	return Eq(a, b)
}

func (x *Exec) mergeVals(name string, vals []Val, mergeT func(string, []T) T) (Val, bool) {
	k := vals[0].K
	for _, v := range vals {
		if v.K != k {
			return Val{}, false
		}
	}
	col := func(f func(Val) T) []T {
		var out []T
		for _, v := range vals {
			out = append(out, f(v))
		}
		return out
	}
	switch k {
	case vScalar:
		r := vals[0]
		r.T = mergeT(name, col(func(v Val) T { return v.T }))
		for _, v := range vals {
			if v.Key != r.Key {
				r.Key = ""
			}
		}
		return r, r.T.S != ""
	case vSlice:
		r := vals[0]
		r.Arr = mergeT(name+".a", col(func(v Val) T { return v.Arr }))
		r.Off = mergeT(name+".o", col(func(v Val) T { return v.Off }))
		r.Len = mergeT(name+".l", col(func(v Val) T { return v.Len }))
		r.Cap = mergeT(name+".c", col(func(v Val) T { return v.Cap }))
		return r, r.Arr.S != "" && r.Off.S != "" && r.Len.S != "" && r.Cap.S != ""
	case vTuple:
		r := Val{K: vTuple}
		for i := range vals[0].Parts {
			var ps []Val
			for _, v := range vals {
				if i >= len(v.Parts) {
					return Val{}, false
				}
				ps = append(ps, v.Parts[i])
			}
			p, ok := x.mergeVals(fmt.Sprintf("%s.%d", name, i), ps, mergeT)
			if !ok {
				return Val{}, false
			}
			r.Parts = append(r.Parts, p)
		}
		return r, true
	case vNone:
		return vals[0], true
	}
	// pointers into objects: only if identical
	for _, v := range vals[1:] {
		if v.Base.S != vals[0].Base.S || v.Key != vals[0].Key || v.Idx.S != vals[0].Idx.S {
			return Val{}, false
		}
	}
	return vals[0], true
}
