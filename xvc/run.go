package main

// Block-level symbolic execution: control flow, loops cut at invariants, instructions.

import (
	"go/parser"
	"go/ast"
	"os"
	"fmt"
	"go/token"
	"go/types"
	"sort"
	"strings"

	"golang.org/x/tools/go/ssa"
)

type loopInfo struct {
	headers []*ssa.BasicBlock              // in source (block index) order
	ord     map[*ssa.BasicBlock]int        // header -> ordinal
	body    map[*ssa.BasicBlock]map[*ssa.BasicBlock]bool
}

func (x *Exec) loopsOf(f *ssa.Function) *loopInfo {
	if x.loops == nil {
		x.loops = map[*ssa.Function]*loopInfo{}
	}
	if li, ok := x.loops[f]; ok {
		return li
	}
	li := &loopInfo{ord: map[*ssa.BasicBlock]int{}, body: map[*ssa.BasicBlock]map[*ssa.BasicBlock]bool{}}
	for _, b := range f.Blocks {
		for _, p := range b.Preds {
			if b.Dominates(p) {
				if _, ok := li.body[b]; !ok {
					li.body[b] = map[*ssa.BasicBlock]bool{b: true}
					li.headers = append(li.headers, b)
				}
				// natural loop: nodes reaching p without passing b
				stack := []*ssa.BasicBlock{p}
				for len(stack) > 0 {
					n := stack[len(stack)-1]
					stack = stack[:len(stack)-1]
					if li.body[b][n] {
						continue
					}
					li.body[b][n] = true
					stack = append(stack, n.Preds...)
				}
			}
		}
	}
	// order headers by source position of their first instruction with a position
	hpos := map[*ssa.BasicBlock]token.Pos{}
	for _, h := range li.headers {
		hp := blockPos(h)
		if int(hp) == h.Index {
			// a header without positioned instructions (range loops): first position in the body
			for bb := range li.body[h] {
				if bp := blockPos(bb); int(bp) != bb.Index && (int(hp) == h.Index || bp < hp) {
					hp = bp
				}
			}
		}
		hpos[h] = hp
	}
	sort.SliceStable(li.headers, func(i, j int) bool { return hpos[li.headers[i]] < hpos[li.headers[j]] })
	for i, h := range li.headers {
		li.ord[h] = i
		if os.Getenv("XVC_LOOPS") != "" {
			fmt.Fprintf(os.Stderr, "loop %d of %s: block %d (%s) at %s\n", i, x.p.Names[f], h.Index, h.Comment, x.p.Prog.Fset.Position(hpos[h]))
		}
	}
	x.loops[f] = li
	return li
}

func blockPos(b *ssa.BasicBlock) token.Pos {
	// smallest position found in the loop header or its body start
	best := token.Pos(1 << 30)
	for _, in := range b.Instrs {
		if _, phi := in.(*ssa.Phi); phi {
			continue // a phi carries the position of the variable's declaration, not of the loop
		}
		if _, dbg := in.(*ssa.DebugRef); dbg {
			continue
		}
		if p := in.Pos(); p.IsValid() && p < best {
			best = p
		}
	}
	if best == token.Pos(1<<30) {
		return token.Pos(b.Index)
	}
	return best
}

// execFunction symbolically executes f with args in state s; k receives every normal return.
func (x *Exec) execFunction(s *State, f *ssa.Function, args []Val, bindings []Val, k cont) {
	fr := &Frame{fn: f, env: map[ssa.Value]Val{}, names: map[string]Val{}, addrs: map[string]Val{}, lets: map[string]Val{},
		measures: map[*ssa.BasicBlock][]T{}, inLoop: map[*ssa.BasicBlock]bool{}, args: args}
	for i, p := range f.Params {
		fr.env[p] = args[i]
		fr.names[p.Name()] = args[i]
	}
	for i, fv := range f.FreeVars {
		fr.env[fv] = bindings[i]
		fr.addrs[fv.Name()] = bindings[i]
	}
	if f == x.root && len(s.frames) == 0 && x.rootLets != nil {
		for k, v := range x.rootLets {
			fr.lets[k] = v
		}
	}
	s.frames = append(s.frames, fr)
	if len(f.Blocks) == 0 {
		x.unsupported("function %s has no body", f.String())
		return
	}
	fr.k = func(s2 *State, res []Val) {
		s2.lastFrame = s2.frames[len(s2.frames)-1]
		s2.frames = s2.frames[:len(s2.frames)-1]
		k(s2, res)
	}
	x.execBlock(s, f.Blocks[0], nil, fr.k)
}

func (x *Exec) execBlock(s *State, b *ssa.BasicBlock, pred *ssa.BasicBlock, k cont) {
	if s.dead {
		return
	}
	if n := len(x.joins); n > 0 {
		jc := x.joins[n-1]
		if jc.block == b && len(s.frames) == jc.depth && pred != nil && !b.Dominates(pred) {
			jc.arrivals = append(jc.arrivals, arrival{s, pred})
			return
		}
	}
	x.evalPhis(s, b, pred)
	x.enterBlock(s, b, pred != nil && b.Dominates(pred), k)
}

// evalPhis assigns the phi nodes of b for an arrival from pred (all read the values on entry).
func (x *Exec) evalPhis(s *State, b *ssa.BasicBlock, pred *ssa.BasicBlock) {
	if pred == nil {
		return
	}
	fr := s.top()
	idx := -1
	for i, p := range b.Preds {
		if p == pred {
			idx = i
		}
	}
	var phis []*ssa.Phi
	var vals []Val
	for _, in := range b.Instrs {
		ph, ok := in.(*ssa.Phi)
		if !ok {
			break
		}
		phis = append(phis, ph)
		vals = append(vals, x.valueOf(s, ph.Edges[idx]))
	}
	for i, ph := range phis {
		fr.env[ph] = vals[i]
		if ph.Comment != "" {
			fr.names[ph.Comment] = vals[i]
		}
	}
}

// enterBlock runs b after its phis have been assigned; back tells whether it was reached by a back edge.
func (x *Exec) enterBlock(s *State, b *ssa.BasicBlock, back bool, k cont) {
	fr := s.top()
	li := x.loopsOf(fr.fn)
	if _, isHeader := li.body[b]; isHeader {
		ord := li.ord[b]
		if back {
			x.loopBackEdge(s, b, ord)
			return
		}
		if !x.loopEntry(s, b, ord) {
			return
		}
	}
	s.trail = append(s.trail, fmt.Sprintf("%s:b%d", x.p.Names[fr.fn], b.Index))
	if len(s.trail) > 60 {
		s.trail = s.trail[len(s.trail)-60:]
	}
	x.execFrom(s, b, 0, k)
}

// loopEntry: check invariants on entry, havoc loop-modified state, assume invariants.
func (x *Exec) loopEntry(s *State, b *ssa.BasicBlock, ord int) bool {
	fr := s.top()
	fc := x.contractOf(fr.fn)
	invs := loopClauses(fc, "invariant", ord)
	decs := loopClauses(fc, "decreases", ord)
	x.applyInstances(s, loopClauses(fc, "apply", ord))
	// at(L, e) inside an invariant of L itself relates the end of an iteration to its head; on entry
	// the head is the entry state
	snapHeap := func() {
		snap := make(map[string]T, len(s.heap))
		for k, v := range s.heap {
			snap[k] = v
		}
		if fr.loopHeads == nil {
			fr.loopHeads = map[int]map[string]T{}
		} else {
			m := make(map[int]map[string]T, len(fr.loopHeads)+1)
			for k, v := range fr.loopHeads {
				m[k] = v
			}
			fr.loopHeads = m
		}
		fr.loopHeads[ord] = snap
		names := make(map[string]Val, len(fr.names))
		for k, v := range fr.names {
			names[k] = v
		}
		hn := make(map[int]map[string]Val, len(fr.loopHeadNames)+1)
		for k, v := range fr.loopHeadNames {
			hn[k] = v
		}
		hn[ord] = names
		fr.loopHeadNames = hn
	}
	snapHeap()
	for i, cl := range invs {
		env := x.specEnvFor(s, "loop invariant")
		t, err := env.evalBool(cl.Expr)
		if err != nil {
			x.unsupported("%s loop %d invariant: %v", x.p.Names[fr.fn], ord, err)
			continue
		}
		x.oblige(s, "invariant-entry", fmt.Sprintf("loop%d#%s", ord, clauseLabel(cl, i)), t, b.Instrs[0].Pos(), cl.Props)
	}
	// objects built so far must be complete before state is forgotten
	x.flushFreshInvs(s, b.Instrs[0].Pos())
	// havoc
	li := x.loopsOf(fr.fn)
	body := li.body[b]
	for _, in := range b.Instrs {
		ph, ok := in.(*ssa.Phi)
		if !ok {
			break
		}
		v := x.freshVal(s, "phi."+ph.Comment, ph.Type())
		fr.env[ph] = v
		if ph.Comment != "" {
			fr.names[ph.Comment] = v
		}
	}
	x.havocLoop(s, fr.fn, body)
	// at the head of an arbitrary round the calls of the loop body may or may not have run before
	// (retval / called / argval in an invariant must not read that as "never ran")
	for bb := range body {
		for _, bin := range bb.Instrs {
			c, isCall := bin.(*ssa.Call)
			if !isCall {
				continue
			}
			if fr.ranCond == nil {
				fr.ranCond = map[ssa.Value]T{}
			} else {
				cp := make(map[ssa.Value]T, len(fr.ranCond)+1)
				for k2, v2 := range fr.ranCond {
					cp[k2] = v2
				}
				fr.ranCond = cp
			}
			fr.ranCond[c] = x.fresh(s, "ran.before", SBool)
			if rt := c.Call.Signature().Results(); rt.Len() == 1 {
				fr.env[c] = x.freshVal(s, "ret.before", rt.At(0).Type())
			} else if rt.Len() > 1 {
				fr.env[c] = x.freshVal(s, "ret.before", rt)
			} else {
				fr.env[c] = Val{K: vNone}
			}
			if fr.callArgs != nil {
				if _, have := fr.callArgs[c]; have {
					cp := make(map[ssa.Value][]Val, len(fr.callArgs))
					for k2, v2 := range fr.callArgs {
						cp[k2] = v2
					}
					var fa []Val
					for _, a := range c.Call.Args {
						fa = append(fa, x.freshVal(s, "arg.before", a.Type()))
					}
					cp[c] = fa
					fr.callArgs = cp
				}
			}
		}
	}
	for _, in := range b.Instrs {
		ph, ok := in.(*ssa.Phi)
		if !ok {
			break
		}
		if ph.Comment == "rangeindex" {
			// range loops count from -1 upwards, below the length (re-checked on the back edge)
			s.assume(x.le(x.ilit(-1), fr.env[ph].T))
			if bv := rangeBound(ph); bv != nil {
				bt := x.valueOf(s, bv).T
				s.assume(And(x.lt(fr.env[ph].T, bt), x.le(bt, x.ilit(1<<40))))
			}
		}
	}
	x.reassumeCaptures(s)
	// the state at the head of this iteration, for at(L, e)
	snapHeap()
	for _, cl := range invs {
		env := x.specEnvFor(s, "loop invariant")
		t, err := env.evalBool(cl.Expr)
		if err == nil {
			s.assume(t)
		}
	}
	x.applyInstances(s, loopClauses(fc, "apply", ord))
	var ms []T
	for _, cl := range decs {
		env := x.specEnvFor(s, "loop decreases")
		v, err := env.evalInt(cl.Expr)
		if err != nil {
			x.unsupported("%s loop %d decreases: %v", x.p.Names[fr.fn], ord, err)
			continue
		}
		ms = append(ms, x.define(s, "measure", v))
	}
	fr.measures[b] = ms
	return true
}

func (x *Exec) loopBackEdge(s *State, b *ssa.BasicBlock, ord int) {
	fr := s.top()
	fc := x.contractOf(fr.fn)
	x.flushFreshInvs(s, b.Instrs[0].Pos())
	for _, in := range b.Instrs {
		ph, ok := in.(*ssa.Phi)
		if !ok {
			break
		}
		if ph.Comment == "rangeindex" {
			g := x.le(x.ilit(-1), fr.env[ph].T)
			if bv := rangeBound(ph); bv != nil {
				g = And(g, x.lt(fr.env[ph].T, x.valueOf(s, bv).T))
			}
			x.oblige(s, "invariant-preserved", fmt.Sprintf("loop%d#rangeindex", ord), g, b.Instrs[0].Pos(), nil)
		}
	}
	invs := loopClauses(fc, "invariant", ord)
	decs := loopClauses(fc, "decreases", ord)
	x.applyInstances(s, loopClauses(fc, "apply", ord))
	for i, cl := range invs {
		env := x.specEnvFor(s, "loop invariant")
		t, err := env.evalBool(cl.Expr)
		if err != nil {
			x.unsupported("%s loop %d invariant at the back edge: %v", x.p.Names[fr.fn], ord, err)
			continue
		}
		x.oblige(s, "invariant-preserved", fmt.Sprintf("loop%d#%s", ord, clauseLabel(cl, i)), t, b.Instrs[0].Pos(), cl.Props)
	}
	ms := fr.measures[b]
	for i, cl := range decs {
		if i >= len(ms) {
			break
		}
		env := x.specEnvFor(s, "loop decreases")
		v, err := env.evalInt(cl.Expr)
		if err != nil {
			x.unsupported("%s loop %d decreases at the back edge: %v", x.p.Names[fr.fn], ord, err)
			continue
		}
		z := x.ilit(0)
		if v.Sort == SInt {
			z = IntLit(0)
		}
		x.oblige(s, "decreases", fmt.Sprintf("loop%d#%s", ord, clauseLabel(cl, i)), And(x.le(z, ms[i]), x.lt(v, ms[i])), b.Instrs[0].Pos(), cl.Props)
	}
}

// applyInstances assumes instances of defining equations of specification functions
// (`instance NAME(params) = body` in the contract file) at the arguments given by `apply NAME(args)`.
func (x *Exec) applyInstances(s *State, cls []*Clause) {
	x.applyInstancesEnv(s, cls, func() *specEnv { return x.specEnvFor(s, "apply") })
}

func (x *Exec) applyInstancesEnv(s *State, cls []*Clause, mkEnv func() *specEnv) {
	for _, cl := range cls {
		ex, err := parser.ParseExpr(cl.Expr)
		if err != nil {
			x.unsupported("apply: %v", err)
			continue
		}
		call, ok := ex.(*ast.CallExpr)
		if !ok {
			x.unsupported("apply needs NAME(args): %s", cl.Expr)
			continue
		}
		id, _ := call.Fun.(*ast.Ident)
		if id == nil || x.p.Ctr.Defines[id.Name] == nil || !x.p.Ctr.Defines[id.Name].Axiom {
			x.unsupported("apply: %s is not declared with `instance`", cl.Expr)
			continue
		}
		env := mkEnv()
		t, err := env.evalBool(cl.Expr)
		if err != nil {
			if strings.Contains(err.Error(), "not inside that loop") || strings.Contains(err.Error(), "unknown name") {
				continue // at(L, ..) before the first iteration of L; a local not bound yet at entry
			}
			x.unsupported("apply %s: %v", cl.Expr, err)
			continue
		}
		s.assume(t)
		d := x.p.Ctr.Defines[id.Name]
		x.assumed["defining equation of a specification function (instance "+d.Name+"): "+d.Body] = true
	}
}

func clauseLabel(cl *Clause, i int) string {
	if cl.Label != "" {
		return cl.Label
	}
	return fmt.Sprint(i)
}

func loopClauses(fc *FuncContract, kind string, ord int) []*Clause {
	var out []*Clause
	if fc == nil {
		return nil
	}
	for _, c := range fc.Clauses {
		if c.Kind == kind && (c.Loop == ord || c.Loop == -1) {
			out = append(out, c)
		}
	}
	return out
}

// havocLoop forgets every heap location some instruction of the loop body may write.
func (x *Exec) havocLoop(s *State, f *ssa.Function, body map[*ssa.BasicBlock]bool) {
	all := false
	allTree := true
	keys := map[string]bool{}
	for b := range body {
		for _, in := range b.Instrs {
			switch in := in.(type) {
			case *ssa.Store:
				for _, k := range x.keysOfAddr(in.Addr) {
					keys[k] = true
				}
			case *ssa.Next:
				if rg, isRange := in.Iter.(*ssa.Range); isRange && in.IsString {
					keys[x.rangeKey(rg)] = true
				}
			case *ssa.MapUpdate:
				mk := "M:" + typeStr(in.Map.Type())
				keys[mk+":has"], keys[mk+":val"], keys[mk+":size"] = true, true, true
			case *ssa.Alloc, *ssa.MakeClosure, *ssa.MakeMap, *ssa.MakeSlice:
				keys["alloc"] = true
				if a, ok := in.(*ssa.Alloc); ok {
					for _, k := range x.keysOfAlloc(a) {
						keys[k] = true
					}
				}
			case ssa.CallInstruction:
				ks, everything := x.callModifies(in.Common())
				if everything {
					all = true
					if !x.callIsTreeFrame(in.Common()) {
						allTree = false
					}
				}
				for _, k := range ks {
					keys[k] = true
				}
			}
		}
	}
	for k := range keys {
		if strings.HasPrefix(k, "R:") || k == "ghost:inpool" {
			x.havocKey(s, k) // advanced / changed in the body itself (calls never touch it)
		}
	}
	if all {
		if allTree {
			// only calls under the ownership assumption: cells of this activation that the loop
			// body itself does not assign keep their value
			var owners []string
			for g := x.root; g != nil; g = g.Parent() {
				owners = append(owners, "C@"+x.p.Names[g]+".")
			}
			x.havocAll(s, func(k string) bool {
				if keys[stripSuf(k)] {
					return false
				}
				for _, o := range owners {
					if strings.HasPrefix(k, o) {
						return true
					}
				}
				return false
			})
			return
		}
		x.havocAll(s, nil)
		return
	}
	var ks []string
	for k := range keys {
		ks = append(ks, k)
	}
	sort.Strings(ks)
	for _, k := range ks {
		x.havocPrefix(s, k)
	}
}

// havocPrefix havocs key and its composite parts (#a #o #l #c).
func (x *Exec) havocPrefix(s *State, key string) {
	if strings.Contains(key, "*") {
		// a pattern: every materialised key it matches, and (recorded) every key materialised later
		s.wildHavoc = append(s.wildHavoc, key)
		var ks []string
		for k := range s.heap {
			if keyMatches([]string{key}, k) {
				ks = append(ks, k)
			}
		}
		sort.Strings(ks)
		for _, k := range ks {
			if strings.HasPrefix(k, "C@") && x.p.immutableKey(stripSuf(k)) {
				continue
			}
			x.havocKey(s, k)
		}
		return
	}
	// make sure the key exists so that the havoc is not lost
	x.havocKey(s, key)
	for _, suf := range []string{"#a", "#o", "#l", "#c"} {
		x.havocKey(s, key+suf)
	}
	if _, ok := s.heap[key]; !ok {
		if _, ok2 := s.heap[key+"#a"]; !ok2 {
			s.wildHavoc = append(s.wildHavoc, key)
		}
	}
}

func stripSuf(k string) string {
	for _, suf := range []string{"#a", "#o", "#l", "#c"} {
		k = strings.TrimSuffix(k, suf)
	}
	return k
}

// rangeBound finds, for the index phi of a range-over-slice loop, the length it is compared with.
func rangeBound(ph *ssa.Phi) ssa.Value {
	for _, r := range *ph.Referrers() {
		if add, ok := r.(*ssa.BinOp); ok && add.Op == token.ADD && add.X == ph {
			for _, r2 := range *add.Referrers() {
				if cmp, ok := r2.(*ssa.BinOp); ok && cmp.Op == token.LSS && cmp.X == add && cmp.Block() == ph.Block() {
					return cmp.Y
				}
			}
		}
	}
	return nil
}

func (x *Exec) keysOfAlloc(a *ssa.Alloc) []string {
	et := a.Type().(*types.Pointer).Elem()
	if st, ok := et.Underlying().(*types.Struct); ok {
		var ks []string
		for i := 0; i < st.NumFields(); i++ {
			k, _ := fieldKey(et, i)
			ks = append(ks, k)
		}
		return ks
	}
	if at, ok := et.Underlying().(*types.Array); ok {
		return []string{"S:" + typeStr(at.Elem())}
	}
	if ci := x.p.cellOf(a); ci != nil {
		return []string{ci.key}
	}
	return []string{cellKey(et)}
}

func (x *Exec) keysOfAddr(a ssa.Value) []string {
	switch a := a.(type) {
	case *ssa.FieldAddr:
		k, _ := fieldKey(a.X.Type().Underlying().(*types.Pointer).Elem(), a.Field)
		return []string{k}
	case *ssa.IndexAddr:
		var et types.Type
		switch t := a.X.Type().Underlying().(type) {
		case *types.Slice:
			et = t.Elem()
		case *types.Pointer:
			et = t.Elem().Underlying().(*types.Array).Elem()
		}
		return []string{"S:" + typeStr(et)}
	case *ssa.Global:
		return []string{"G:" + a.Name()}
	case *ssa.Alloc:
		if ci := x.p.cellOf(a); ci != nil {
			return []string{ci.key}
		}
	case *ssa.FreeVar:
		if ci := x.p.cellOfFreeVar(a); ci != nil {
			return []string{ci.key}
		}
	}
	et := a.Type().Underlying().(*types.Pointer).Elem()
	return []string{cellKey(et)}
}

func (x *Exec) execFrom(s *State, b *ssa.BasicBlock, start int, k cont) {
	fr := s.top()
	for i := start; i < len(b.Instrs); i++ {
		if s.dead {
			return
		}
		in := b.Instrs[i]
		switch in := in.(type) {
		case *ssa.Phi:
			continue
		case *ssa.DebugRef:
			x.debugRef(s, in)
			continue
		case *ssa.If:
			c := x.valueOf(s, in.Cond).T
			switch c.S {
			case "true":
				x.execBlock(s, b.Succs[0], b, k)
			case "false":
				x.execBlock(s, b.Succs[1], b, k)
			default:
				x.paths++
				if x.paths > x.maxPaths {
					x.capped = true
					return
				}
				if x.tryMergeIf(s, b, c, k) {
					return
				}
				s2 := s.clone()
				s.assume(c)
				s2.assume(Not(c))
				x.execBlock(s, b.Succs[0], b, k)
				x.execBlock(s2, b.Succs[1], b, k)
			}
			return
		case *ssa.Jump:
			x.execBlock(s, b.Succs[0], b, k)
			return
		case *ssa.Return:
			var res []Val
			for _, r := range in.Results {
				res = append(res, x.valueOf(s, r))
			}
			if len(fr.defers) > 0 && fr.panicking == nil {
				// RunDefers precedes Return in SSA; nothing to do here
			}
			k(s, res)
			return
		case *ssa.Panic:
			x.doPanic(s, in, x.valueOf(s, in.X), k)
			return
		case *ssa.RunDefers:
			if len(fr.defers) > 0 {
				x.runDefers(s, b, i+1, k)
				return
			}
			continue
		case *ssa.Defer:
			fr.defers = append(fr.defers, in)
			continue
		case *ssa.Go:
			x.unsupported("go statement")
			continue
		case ssa.CallInstruction: // *ssa.Call
			done := x.execCall(s, in.(*ssa.Call), func(s2 *State) { x.execFrom(s2, b, i+1, k) })
			if done {
				return
			}
			continue
		default:
			x.execInstr(s, in)
		}
	}
}

func (x *Exec) debugRef(s *State, d *ssa.DebugRef) {
	id, ok := d.Expr.(interface{ String() string })
	_ = id
	_ = ok
	obj := d.Object()
	if obj == nil {
		return
	}
	name := obj.Name()
	if name == "_" || name == "" {
		return
	}
	if _, isVar := obj.(*types.Var); !isVar {
		return
	}
	fr := s.top()
	v := x.valueOf(s, d.X)
	if d.IsAddr {
		fr.addrs[name] = v
		delete(fr.names, name)
	} else {
		fr.names[name] = v
		delete(fr.addrs, name)
		// history of distinct bindings, for ver(name, i) in specifications
		i := 0
		for {
			if _, ok := fr.names[fmt.Sprintf("%s#%d", name, i)]; !ok {
				break
			}
			i++
		}
		if i == 0 || !sameVal(fr.names[fmt.Sprintf("%s#%d", name, i-1)], v) {
			fr.names[fmt.Sprintf("%s#%d", name, i)] = v
		}
	}
}

func sameVal(a, b Val) bool {
	if a.K != b.K {
		return false
	}
	if a.K == vScalar {
		return a.T.S == b.T.S
	}
	return a.Arr.S == b.Arr.S && a.Off.S == b.Off.S && a.Len.S == b.Len.S
}

// doPanic handles an explicit panic instruction.
func (x *Exec) doPanic(s *State, in *ssa.Panic, v Val, k cont) {
	fr := s.top()
	if !x.sweep && v.K == vScalar && v.T.Sort == SIface {
		// compile phase: build() tells "no panic" from "panic" by recover() != nil
		x.oblige(s, "panic-nonnil", x.label(in), Not(Eq(v.T, T{"inil", SIface})), in.Pos(), []string{"C06"})
	}
	// an enclosing frame with a recovering defer (inlined callee of build)?
	for i := len(s.frames) - 1; i >= 0; i-- {
		if len(s.frames[i].defers) > 0 && i != len(s.frames)-1 {
			// unwind to that frame
			s.frames = s.frames[:i+1]
			s.frames[i].panicking = &v
			x.runDefersPanicking(s, s.frames[i].k)
			return
		}
	}
	if len(fr.defers) > 0 {
		// function with a recover handler (build): run the deferred closure with the panic value
		fr.panicking = &v
		x.runDefersPanicking(s, k)
		return
	}
	// whitelisted deliberate panic?
	msg := x.panicMessage(in)
	fc := x.contractOf(fr.fn)
	root := x.fnc
	allowed := false
	for _, c := range []*FuncContract{fc, root} {
		if c == nil {
			continue
		}
		for _, p := range c.Panics {
			if p == "*" || (msg != "" && strings.HasPrefix(msg, p)) {
				allowed = true
			}
		}
	}
	if allowed {
		return // exceptional exit permitted by contract; path ends
	}
	if x.fnc != nil && x.fnc.NoPanic {
		x.oblige(s, "panic-escapes", x.label(in), TFalse, in.Pos(), x.fnc.Props)
		return
	}
	if x.sweep {
		x.oblige(s, "panic-unreachable", x.label(in), TFalse, in.Pos(), nil)
	}
}

// panicMessage recovers the constant message prefix of panic(errors.New("...")), panic("..."), panic(fmt.Errorf("...")).
func (x *Exec) panicMessage(in *ssa.Panic) string {
	v := in.X
	for {
		switch t := v.(type) {
		case *ssa.MakeInterface:
			v = t.X
			continue
		case *ssa.ChangeInterface:
			v = t.X
			continue
		case *ssa.Const:
			if t.Value != nil && isString(t.Type()) {
				return strings.Trim(t.Value.ExactString(), `"`)
			}
			return ""
		case *ssa.Call:
			if sc := t.Call.StaticCallee(); sc != nil && len(t.Call.Args) > 0 {
				switch sc.String() {
				case "errors.New", "fmt.Errorf", "fmt.Sprintf":
					v = t.Call.Args[0]
					continue
				}
			}
			return ""
		}
		return ""
	}
}

func (x *Exec) execInstr(s *State, in ssa.Instruction) {
	fr := s.top()
	switch in := in.(type) {
	case *ssa.Alloc:
		et := in.Type().(*types.Pointer).Elem()
		r := x.alloc(s, "new."+in.Comment)
		switch u := et.Underlying().(type) {
		case *types.Struct:
			x.zeroStruct(s, r, et)
			if ts := typeStr(et); ts == "bytes.Buffer" || ts == "strings.Builder" {
				// the zero value of a buffer is empty
				bufs := x.heapSym(s, "ghost:buf", SArray(SInt, SStr))
				x.heapSet(s, "ghost:buf", Store(bufs, r, T{"str.empty", SStr}))
			}
			s.allocTypes = append(s.allocTypes, allocRec{r, et, x.label(in)})
			if x.p.isPackageType(et) {
				s.assume(Eq(mk(SInt, "objtype", r), IntLit(int64(x.p.tag(types.NewPointer(et))))))
			}
		case *types.Array:
			_ = u
		default:
			key := cellKey(et)
			if ci := x.p.cellOf(in); ci != nil {
				key = ci.key
			}
			x.storeAt(s, key, r, et, x.zero(s, et))
		}
		v := scalar(r)
		v.Typ = et
		if ci := x.p.cellOf(in); ci != nil {
			v.Key = ci.key
		}
		fr.env[in] = v
		if in.Comment != "" {
			fr.addrs[in.Comment] = v
		}
	case *ssa.FieldAddr:
		base := x.valueOf(s, in.X)
		st := in.X.Type().Underlying().(*types.Pointer).Elem()
		key, ft := fieldKey(st, in.Field)
		var ref T
		switch base.K {
		case vScalar:
			ref = base.T
			if x.sweep {
				x.oblige(s, "nil-deref", x.label(in), Not(Eq(ref, IntLit(0))), in.Pos(), nil)
			}
			s.assume(Not(Eq(ref, IntLit(0))))
			fr.env[in] = Val{K: vFieldPtr, Base: ref, Key: key, Typ: ft}
		case vGlobalPtr:
			fr.env[in] = Val{K: vGlobalPtr, Key: base.Key + "." + st.Underlying().(*types.Struct).Field(in.Field).Name(), Typ: ft}
		case vFieldPtr:
			// field of an embedded struct value: address it by a derived key on the same object
			fr.env[in] = Val{K: vFieldPtr, Base: base.Base, Key: base.Key + "." + st.Underlying().(*types.Struct).Field(in.Field).Name(), Typ: ft}
		case vIndexPtr:
			// field of a struct stored inside an array (only the rune range tables of init): opaque location
			fr.env[in] = Val{K: vFieldPtr, Base: x.fresh(s, "elemfield", SInt), Key: "X:" + key, Typ: ft}
		default:
			x.unsupported("FieldAddr on value kind %d", base.K)
			fr.env[in] = Val{K: vFieldPtr, Base: x.fresh(s, "unk", SInt), Key: key, Typ: ft}
		}
	case *ssa.Field:
		// field of a struct value: only struct handles (opaque)
		x.unsupported("%s: Field on struct value %s", x.p.Names[fr.fn], in.X.Type())
		fr.env[in] = x.freshVal(s, "field", in.Type())
	case *ssa.IndexAddr:
		x.indexAddr(s, in)
	case *ssa.Index:
		x.indexVal(s, in)
	case *ssa.Lookup:
		x.lookup(s, in)
	case *ssa.UnOp:
		x.unop(s, in)
	case *ssa.BinOp:
		x.binop(s, in)
	case *ssa.Store:
		x.storeInstr(s, in)
	case *ssa.MapUpdate:
		x.mapUpdate(s, in)
	case *ssa.Extract:
		t := x.valueOf(s, in.Tuple)
		if t.K != vTuple || in.Index >= len(t.Parts) {
			x.unsupported("extract from non-tuple")
			fr.env[in] = x.freshVal(s, "ext", in.Type())
			return
		}
		fr.env[in] = t.Parts[in.Index]
	case *ssa.MakeInterface:
		bv := x.valueOf(s, in.X)
		switch in.X.Type().Underlying().(type) {
		case *types.Pointer, *types.Signature:
			if bv.K == vScalar && x.p.isPackageType(in.X.Type()) {
				// no typed-nil values inside interfaces: methods may assume a non-nil receiver
				x.oblige(s, "nonnil-box", x.label(in), Not(Eq(bv.T, IntLit(0))), in.Pos(), []string{"C15"})
			}
		}
		fr.env[in] = scalar(x.box(s, bv, in.X.Type()))
	case *ssa.ChangeInterface:
		fr.env[in] = x.valueOf(s, in.X)
	case *ssa.ChangeType:
		fr.env[in] = x.valueOf(s, in.X)
	case *ssa.Convert:
		x.convert(s, in)
	case *ssa.TypeAssert:
		x.typeAssert(s, in)
	case *ssa.MakeClosure:
		x.makeClosure(s, in)
	case *ssa.MakeMap:
		r := x.alloc(s, "map")
		mk_ := "M:" + typeStr(in.Type())
		mt := in.Type().Underlying().(*types.Map)
		ks := x.sortOf(mt.Key())
		has := x.heapSym(s, mk_+":has", SArray(SInt, SArray(ks, SBool)))
		x.heapSet(s, mk_+":has", Store(has, r, T{fmt.Sprintf("((as const (Array %s Bool)) false)", ks), SArray(ks, SBool)}))
		sz := x.heapSym(s, mk_+":size", SArray(SInt, x.intSort()))
		x.heapSet(s, mk_+":size", Store(sz, r, x.ilit(0)))
		if len(s.frames) == 1 {
			// a map this function made and keeps to itself is not changed by the functions it calls
			s.freshArrays = append(s.freshArrays, arrRec{r, mk_ + ":has"}, arrRec{r, mk_ + ":size"}, arrRec{r, mk_ + ":val"})
		}
		fr.env[in] = scalar(r)
	case *ssa.MakeSlice:
		r := x.alloc(s, "mkslice")
		l := x.valueOf(s, in.Len).T
		c := x.valueOf(s, in.Cap).T
		if x.sweep {
			z := x.ilit(0)
			x.oblige(s, "slice-bounds", x.label(in), And(x.le(z, l), x.le(l, c)), in.Pos(), nil)
		}
		fr.env[in] = Val{K: vSlice, Arr: r, Off: x.ilit(0), Len: l, Cap: c, Typ: in.Type()}
	case *ssa.Slice:
		x.sliceOp(s, in)
	case *ssa.Range:
		fr.env[in] = Val{K: vRange, Parts: []Val{x.valueOf(s, in.X)}, Typ: in.X.Type()}
		if isString(in.X.Type()) {
			x.heapSet(s, x.rangeKey(in), x.ilit(0)) // byte offset of the next rune
		}
	case *ssa.Next:
		x.next(s, in)
	default:
		x.unsupported("%s: instruction %T", x.p.Names[fr.fn], in)
		if v, ok := in.(ssa.Value); ok {
			fr.env[v] = x.freshVal(s, "unk", v.Type())
		}
	}
}

func (x *Exec) next(s *State, in *ssa.Next) {
	fr := s.top()
	it := x.valueOf(s, in.Iter)
	ok := x.fresh(s, "next.ok", SBool)
	tup := in.Type().(*types.Tuple)
	kv := x.freshVal(s, "next.k", tup.At(1).Type())
	vv := x.freshVal(s, "next.v", tup.At(2).Type())
	if in.IsString && it.K == vRange {
		// range over a string: the iterator stands at byte offset p; a round delivers (p, the rune
		// that starts there) and advances by the width of its encoding (1..4 bytes, 1 for a byte
		// below 0x80, whose rune is that byte)
		str := it.Parts[0].T
		l := x.strLen(s, str)
		s.assume(Implies(ok, And(x.le(x.ilit(0), kv.T), x.lt(kv.T, l))))
		if rg, isRange := in.Iter.(*ssa.Range); isRange {
			key := x.rangeKey(rg)
			x.assumed["range over a string: a round delivers the byte offset and the rune that starts there and advances by the width of its encoding (1..4 bytes; exactly 1, rune = byte, for a byte below 0x80)"] = true
			p := x.heapSym(s, key, x.intSort())
			s.assume(And(x.le(x.ilit(0), p), x.le(p, l)))
			s.assume(mk(SBool, "=", ok, x.lt(p, l)))
			s.assume(Implies(ok, Eq(kv.T, p)))
			w := x.fresh(s, "next.width", x.intSort())
			b := mk(x.byteSort(), "str.at_", str, p)
			var isASCII, sameRune T
			if x.mode == "int" {
				isASCII = And(x.le(x.ilit(0), b), x.lt(b, x.ilit(128)))
				sameRune = Eq(vv.T, b)
			} else {
				isASCII = mk(SBool, "bvult", b, BVLit(128, 8))
				sameRune = Eq(vv.T, mk(SBV32, "(_ zero_extend 24)", b))
			}
			s.assume(Implies(ok, And(x.le(x.ilit(1), w), x.le(w, x.ilit(4)), x.le(x.add(p, w), l), Implies(isASCII, And(Eq(w, x.ilit(1)), sameRune)))))
			x.heapSet(s, key, Ite(ok, x.add(p, w), p))
		}
	}
	fr.env[in] = Val{K: vTuple, Parts: []Val{scalar(ok), kv, vv}}
}

func (x *Exec) box(s *State, v Val, t types.Type) T {
	tag := IntLit(int64(x.p.tag(t)))
	if isIface(t) {
		return v.T
	}
	if st, ok := t.Underlying().(*types.Struct); ok && st.NumFields() == 0 {
		return mk(SIface, "iref", tag, IntLit(0)) // all values of an empty struct type are equal
	}
	if v.K != vScalar {
		// slices etc. inside interfaces: opaque
		r := x.fresh(s, "boxed", SInt)
		return mk(SIface, "iref", tag, r)
	}
	switch v.T.Sort {
	case SFloat:
		return mk(SIface, "iflt", tag, v.T)
	case SStr:
		return mk(SIface, "istr", tag, v.T)
	case SBool:
		return mk(SIface, "ibool", tag, v.T)
	case SBV64:
		if isInt(t) {
			return mk(SIface, "iint", tag, v.T)
		}
	case SBV32, SBV8:
		return mk(SIface, "iint", tag, x.toGoInt(v.T, !isUnsigned(t)))
	case SInt:
		if isInt(t) {
			return mk(SIface, "iint", tag, v.T)
		}
		return mk(SIface, "iref", tag, v.T)
	}
	return mk(SIface, "iref", tag, v.T)
}

// isType: dynamic type of iface value v is exactly the concrete type t.
func (x *Exec) isType(v T, t types.Type) T {
	tag := IntLit(int64(x.p.tag(t)))
	switch x.payloadCtor(t) {
	case "iflt":
		return And(mk(SBool, "(_ is iflt)", v), Eq(mk(SInt, "ftag", v), tag))
	case "istr":
		return And(mk(SBool, "(_ is istr)", v), Eq(mk(SInt, "stag", v), tag))
	case "ibool":
		return And(mk(SBool, "(_ is ibool)", v), Eq(mk(SInt, "btag", v), tag))
	case "iint":
		return And(mk(SBool, "(_ is iint)", v), Eq(mk(SInt, "ntag", v), tag))
	}
	return And(mk(SBool, "(_ is iref)", v), Eq(mk(SInt, "itag", v), tag))
}

func (x *Exec) payloadCtor(t types.Type) string {
	switch {
	case isFloat(t):
		return "iflt"
	case isString(t):
		return "istr"
	case isBool(t):
		return "ibool"
	case isInt(t):
		return "iint"
	}
	return "iref"
}

func (x *Exec) unbox(s *State, v T, t types.Type) Val {
	switch x.payloadCtor(t) {
	case "iflt":
		return scalar(mk(SFloat, "ifv", v))
	case "istr":
		return scalar(mk(SStr, "isv", v))
	case "ibool":
		return scalar(mk(SBool, "ibv", v))
	case "iint":
		p := mk(x.intSort(), "iiv", v)
		so := x.sortOf(t)
		if so != p.Sort && p.Sort == SBV64 {
			p = mk(so, fmt.Sprintf("(_ extract %d 0)", sortBits(so)-1), p)
		}
		return scalar(p)
	}
	if isSlice(t) {
		return x.freshVal(s, "unboxed", t)
	}
	r := scalar(mk(SInt, "iptr", v))
	return r
}

// implements: dynamic type of v implements interface type it.
func (x *Exec) implementsT(v T, it types.Type) T {
	if impls, closed := x.p.closedImpls(it); closed {
		var alts []T
		for _, ct := range impls {
			alts = append(alts, x.isType(v, ct))
		}
		return Or(alts...)
	}
	return And(Not(Eq(v, T{"inil", SIface})), mk(SBool, "impl", mk(SInt, "dyntag", v), IntLit(int64(x.p.iface(it)))))
}

func (x *Exec) typeAssert(s *State, in *ssa.TypeAssert) {
	fr := s.top()
	v := x.valueOf(s, in.X).T
	var ok T
	var val Val
	if isIface(in.AssertedType) {
		it := in.AssertedType.Underlying().(*types.Interface)
		if it.NumMethods() == 0 {
			ok = Not(Eq(v, T{"inil", SIface}))
		} else {
			ok = x.implementsT(v, in.AssertedType)
		}
		val = scalar(v)
	} else {
		ok = x.isType(v, in.AssertedType)
		val = x.unbox(s, v, in.AssertedType)
	}
	okc := x.define(s, "ok", ok)
	if in.CommaOk {
		// value is the zero value when !ok
		z := x.zero(s, in.AssertedType)
		var res Val
		if val.K == vScalar && z.K == vScalar {
			res = scalar(Ite(okc, val.T, z.T))
		} else {
			res = val
		}
		if pt, isPtr := in.AssertedType.Underlying().(*types.Pointer); isPtr {
			s.assume(Implies(okc, mk(SBool, ">=", val.T, IntLit(0))))
			x.assumeAllocated(s, val.T)
			if inv := x.p.Ctr.Invs[typeStr(pt.Elem())]; len(inv) > 0 {
				s.assume(Implies(And(okc, Not(Eq(val.T, IntLit(0)))), x.invTerm(s, val.T, pt.Elem())))
			}
		}
		fr.env[in] = Val{K: vTuple, Parts: []Val{res, scalar(okc)}}
		return
	}
	if x.sweep {
		x.oblige(s, "type-assert", x.label(in), okc, in.Pos(), nil)
	}
	s.assume(okc)
	if pt, isPtr := in.AssertedType.Underlying().(*types.Pointer); isPtr {
		s.assume(mk(SBool, ">=", val.T, IntLit(0)))
		x.assumeAllocated(s, val.T)
		x.assumeInv(s, val.T, pt.Elem())
	}
	fr.env[in] = val
}

func (x *Exec) indexAddr(s *State, in *ssa.IndexAddr) {
	fr := s.top()
	base := x.valueOf(s, in.X)
	idx := x.toGoInt(x.valueOf(s, in.Index).T, !isUnsigned(in.Index.Type()))
	z := x.ilit(0)
	switch t := in.X.Type().Underlying().(type) {
	case *types.Slice:
		if base.K != vSlice {
			x.unsupported("IndexAddr on non-slice value")
			fr.env[in] = Val{K: vIndexPtr, Base: x.fresh(s, "unk", SInt), Idx: idx, Key: "S:" + typeStr(t.Elem()), Typ: t.Elem()}
			return
		}
		if x.sweep {
			x.oblige(s, "index", x.label(in), And(x.le(z, idx), x.lt(idx, base.Len)), in.Pos(), nil)
		}
		s.assume(And(x.le(z, idx), x.lt(idx, base.Len)))
		fr.env[in] = Val{K: vIndexPtr, Base: base.Arr, Idx: x.add(base.Off, idx), Key: "S:" + typeStr(t.Elem()), Typ: t.Elem()}
	case *types.Pointer:
		at := t.Elem().Underlying().(*types.Array)
		if x.sweep {
			x.oblige(s, "index", x.label(in), And(x.le(z, idx), x.lt(idx, x.ilit(at.Len()))), in.Pos(), nil)
		}
		if base.K != vScalar {
			x.unsupported("IndexAddr on array pointer kind %d", base.K)
			return
		}
		fr.env[in] = Val{K: vIndexPtr, Base: base.T, Idx: idx, Key: "S:" + typeStr(at.Elem()), Typ: at.Elem()}
	default:
		x.unsupported("IndexAddr on %s", in.X.Type())
	}
}

func (x *Exec) indexVal(s *State, in *ssa.Index) {
	fr := s.top()
	if isString(in.X.Type()) {
		str := x.valueOf(s, in.X).T
		idx := x.toGoInt(x.valueOf(s, in.Index).T, true)
		l := x.strLen(s, str)
		if x.sweep {
			x.oblige(s, "index", x.label(in), And(x.le(x.ilit(0), idx), x.lt(idx, l)), in.Pos(), nil)
		}
		s.assume(And(x.le(x.ilit(0), idx), x.lt(idx, l)))
		fr.env[in] = scalar(mk(x.byteSort(), "str.at_", str, idx))
		return
	}
	x.unsupported("%s: Index on %s", x.p.Names[fr.fn], in.X.Type())
	fr.env[in] = x.freshVal(s, "idx", in.Type())
}

func (x *Exec) lookup(s *State, in *ssa.Lookup) {
	fr := s.top()
	if isString(in.X.Type()) {
		str := x.valueOf(s, in.X).T
		idx := x.toGoInt(x.valueOf(s, in.Index).T, true)
		l := x.strLen(s, str)
		if x.sweep {
			x.oblige(s, "index", x.label(in), And(x.le(x.ilit(0), idx), x.lt(idx, l)), in.Pos(), nil)
		}
		s.assume(And(x.le(x.ilit(0), idx), x.lt(idx, l)))
		fr.env[in] = scalar(mk(x.byteSort(), "str.at_", str, idx))
		return
	}
	mt := in.X.Type().Underlying().(*types.Map)
	m := x.valueOf(s, in.X).T
	x.guardCheck(s, in, "M:"+typeStr(in.X.Type()), false)
	key := x.mapKey(s, x.valueOf(s, in.Index), mt.Key())
	mk_ := "M:" + typeStr(in.X.Type())
	ks := key.Sort
	has := Select(Select(x.heapSym(s, mk_+":has", SArray(SInt, SArray(ks, SBool))), m, SArray(ks, SBool)), key, SBool)
	has = And(Not(Eq(m, IntLit(0))), has)
	var val Val
	if isSlice(mt.Elem()) {
		val = x.freshVal(s, "mapval", mt.Elem())
	} else {
		vs := x.sortOf(mt.Elem())
		raw := Select(Select(x.heapSym(s, mk_+":val", SArray(SInt, SArray(ks, vs))), m, SArray(ks, vs)), key, vs)
		val = scalar(Ite(has, raw, x.zero(s, mt.Elem()).T))
	}
	if in.CommaOk {
		fr.env[in] = Val{K: vTuple, Parts: []Val{val, scalar(x.define(s, "found", has))}}
	} else {
		fr.env[in] = val
	}
}

func (x *Exec) mapKey(s *State, v Val, t types.Type) T { return v.T }

// guardCheck: accesses to lock-guarded state need the lock (read: R or W, write: W).
func (x *Exec) guardCheck(s *State, in ssa.Instruction, key string, write bool) {
	if x.fnc == nil || len(x.fnc.Guards) == 0 || len(s.frames) != 1 {
		return
	}
	guarded := false
	for _, g := range x.fnc.Guards {
		if strings.HasPrefix(g, "heap(") {
			if keyMatches([]string{strings.TrimSuffix(strings.TrimPrefix(g, "heap("), ")")}, key) {
				guarded = true
			}
		} else if i := strings.LastIndex(g, "."); i > 0 && strings.HasSuffix(key, g[i:]) {
			guarded = true
		}
	}
	if !guarded {
		return
	}
	held := x.heldMode(s)
	ok := held == "W" || (!write && held == "R")
	x.oblige(s, "locks", x.label(in), Bool(ok), in.Pos(), nil)
}

func (x *Exec) mapUpdate(s *State, in *ssa.MapUpdate) {
	mt := in.Map.Type().Underlying().(*types.Map)
	m := x.valueOf(s, in.Map).T
	if x.sweep {
		x.oblige(s, "nil-map-write", x.label(in), Not(Eq(m, IntLit(0))), in.Pos(), nil)
	}
	s.assume(Not(Eq(m, IntLit(0))))
	key := x.mapKey(s, x.valueOf(s, in.Key), mt.Key())
	val := x.valueOf(s, in.Value)
	x.frameCheck(s, in, m, "M:"+typeStr(in.Map.Type()))
	if !x.isFresh(s, m) {
		x.guardCheck(s, in, "M:"+typeStr(in.Map.Type()), true)
	}
	mk_ := "M:" + typeStr(in.Map.Type())
	ks := key.Sort
	hasArr := x.heapSym(s, mk_+":has", SArray(SInt, SArray(ks, SBool)))
	inner := Select(hasArr, m, SArray(ks, SBool))
	was := Select(inner, key, SBool)
	szArr := x.heapSym(s, mk_+":size", SArray(SInt, x.intSort()))
	oldsz := Select(szArr, m, x.intSort())
	x.heapSet(s, mk_+":size", Store(szArr, m, Ite(was, oldsz, x.add(oldsz, x.ilit(1)))))
	x.heapSet(s, mk_+":has", Store(hasArr, m, Store(inner, key, TTrue)))
	if val.K == vScalar {
		vs := val.T.Sort
		valArr := x.heapSym(s, mk_+":val", SArray(SInt, SArray(ks, vs)))
		vin := Select(valArr, m, SArray(ks, vs))
		x.heapSet(s, mk_+":val", Store(valArr, m, Store(vin, key, val.T)))
	}
}

func (x *Exec) unop(s *State, in *ssa.UnOp) {
	fr := s.top()
	v := x.valueOf(s, in.X)
	switch in.Op {
	case token.MUL:
		elem := in.X.Type().Underlying().(*types.Pointer).Elem()
		if v.K == vScalar {
			if x.sweep {
				x.oblige(s, "nil-deref", x.label(in), Not(Eq(v.T, IntLit(0))), in.Pos(), nil)
			}
			s.assume(Not(Eq(v.T, IntLit(0))))
		}
		if v.K == vFieldPtr {
			x.guardCheck(s, in, v.Key, false)
			if fa, ok := in.X.(*ssa.FieldAddr); ok && !x.isFresh(s, v.Base) && !s.dirty[v.Base.S] {
				x.assumeInv(s, v.Base, fa.X.Type().Underlying().(*types.Pointer).Elem())
			}
		}
		res := x.load(s, v, elem, false)
		res = x.nameVal(s, in, res)
		x.assumeLoaded(s, res, elem)
		x.assumeEntryAllocated(s, v, res, elem)
		fr.env[in] = res
	case token.NOT:
		fr.env[in] = scalar(Not(v.T))
	case token.SUB:
		if v.T.Sort == SFloat {
			fr.env[in] = scalar(mk(SFloat, "fp.neg", v.T))
		} else if v.T.Sort == SInt {
			fr.env[in] = scalar(mk(SInt, "-", v.T))
		} else {
			fr.env[in] = scalar(mk(v.T.Sort, "bvneg", v.T))
		}
	case token.XOR:
		if v.T.Sort == SInt {
			x.unsupported("bitwise complement in int mode")
			fr.env[in] = x.freshVal(s, "xor", in.Type())
		} else {
			fr.env[in] = scalar(mk(v.T.Sort, "bvnot", v.T))
		}
	default:
		x.unsupported("unary op %s", in.Op)
		fr.env[in] = x.freshVal(s, "unop", in.Type())
	}
}

// nameVal binds composite/large values to fresh constants so that terms stay small.
func (x *Exec) nameVal(s *State, in ssa.Value, v Val) Val {
	switch v.K {
	case vScalar:
		v.T = x.define(s, in.Name(), v.T)
	case vSlice:
		v.Arr = x.define(s, in.Name()+".a", v.Arr)
		v.Off = x.define(s, in.Name()+".o", v.Off)
		v.Len = x.define(s, in.Name()+".l", v.Len)
		v.Cap = x.define(s, in.Name()+".c", v.Cap)
	}
	return v
}

// assumeEntryAllocated: a reference read from a memory location that has not been written since
// function entry already existed at entry (it cannot be an object allocated during this call).
func (x *Exec) assumeEntryAllocated(s *State, p Val, res Val, t types.Type) {
	if res.K != vScalar {
		return
	}
	key := p.Key
	if p.K == vScalar && key == "" {
		key = cellKey(t)
	}
	if key == "" {
		return
	}
	cur, ok1 := s.heap[key]
	ent, ok2 := s.heap0[key]
	if !ok1 || !ok2 || cur.S != ent.S {
		return
	}
	x.heapSym(s, "alloc", SArray(SInt, SBool))
	a0 := s.heap0["alloc"]
	switch t.Underlying().(type) {
	case *types.Pointer:
		s.assume(Or(Eq(res.T, IntLit(0)), Select(a0, res.T, SBool)))
	case *types.Interface:
		s.assume(Implies(And(mk(SBool, "(_ is iref)", res.T), Not(Eq(mk(SInt, "iptr", res.T), IntLit(0)))), Select(a0, mk(SInt, "iptr", res.T), SBool)))
	}
}

// assumeLoaded adds type invariants for values read from memory.
func (x *Exec) assumeLoaded(s *State, v Val, t types.Type) {
	switch v.K {
	case vSlice:
		x.assumeSliceWF(s, v)
	case vScalar:
		x.assumeTypeInv(s, v, t)
	}
}

func (x *Exec) storeInstr(s *State, in *ssa.Store) {
	addr := x.valueOf(s, in.Addr)
	val := x.valueOf(s, in.Val)
	elem := in.Addr.Type().Underlying().(*types.Pointer).Elem()
	if addr.K == vScalar {
		if x.sweep {
			x.oblige(s, "nil-deref", x.label(in), Not(Eq(addr.T, IntLit(0))), in.Pos(), nil)
		}
		s.assume(Not(Eq(addr.T, IntLit(0))))
	}
	var target T
	switch addr.K {
	case vScalar:
		target = addr.T
	case vFieldPtr, vIndexPtr:
		target = addr.Base
	}
	x.frameCheck(s, in, target, addr.Key)
	if addr.K == vFieldPtr {
		x.guardCheck(s, in, addr.Key, true)
		if fa, ok := in.Addr.(*ssa.FieldAddr); ok && !x.isFresh(s, addr.Base) {
			// the global invariant holds for every object this function has not started to modify
			x.assumeInv(s, addr.Base, fa.X.Type().Underlying().(*types.Pointer).Elem())
		}
	}
	if val.K == vScalar {
		for _, r := range s.allocTypes {
			if strings.Contains(val.T.S, r.ref.S) && !(addr.K == vFieldPtr && x.isFresh(s, addr.Base)) {
				s.escaped[r.ref.S] = true
			}
		}
	}
	if val.K == vSlice {
		for _, a := range s.freshArrays {
			if strings.Contains(val.Arr.S, a.ref.S) {
				if cell, isAlloc := in.Addr.(*ssa.Alloc); !(isAlloc && x.p.cellOf(cell) != nil) {
					s.escaped[a.ref.S] = true
				}
			}
		}
	}
	x.store(s, addr, elem, val)
	if _, isFV := in.Addr.(*ssa.FreeVar); isFV && len(s.frames) == 1 && x.fnc != nil && x.fnc.Conforms == "functionQuery.Func" {
		// an XPath function closure is shared by every evaluation of the compiled expression:
		// it must not assign the variables it captured
		x.oblige(s, "frame", "captured-store:"+x.label(in), TFalse, in.Pos(), []string{"C04", "C05"})
	}
	if _, isFV := in.Addr.(*ssa.FreeVar); isFV {
		if fc := x.contractOf(in.Parent()); fc != nil {
			// `captures`: invariants of the captured variables (also checked where the closure is made);
			// `stores`: what must hold of them after every assignment the closure itself makes
			for _, kind := range []string{"captures", "stores"} {
				for i, cl := range fc.clauses(kind) {
					env := x.specEnvFor(s, "captures")
					t, err := env.evalBool(cl.Expr)
					if err != nil {
						x.unsupported("%s clause of %s at a store: %v", kind, x.p.Names[in.Parent()], err)
						continue
					}
					x.oblige(s, "captures-preserved", x.label(in)+"#"+clauseLabel(cl, i), t, in.Pos(), cl.Props)
				}
			}
		}
	}
	// re-establish the type invariant of a non-fresh object whose field was written
	if addr.K == vFieldPtr {
		if fa, ok := in.Addr.(*ssa.FieldAddr); ok {
			st := fa.X.Type().Underlying().(*types.Pointer).Elem()
			if len(x.p.Ctr.Invs[typeStr(st)]) > 0 && !x.isFresh(s, addr.Base) {
				x.oblige(s, "inv-preserved", x.label(in), Implies(Not(x.freshTerm(s, addr.Base)), x.invTerm(s, addr.Base, st)), in.Pos(), nil)
			}
		}
	}
}

func (x *Exec) isFresh(s *State, ref T) bool {
	for _, r := range s.fresh {
		if r.S == ref.S {
			return true
		}
	}
	return false
}

// freshTerm: ref was not allocated at function entry.
func (x *Exec) freshTerm(s *State, ref T) T {
	if x.isFresh(s, ref) {
		return TTrue
	}
	x.heapSym(s, "alloc", SArray(SInt, SBool))
	return Not(Select(s.heap0["alloc"], ref, SBool))
}

func (x *Exec) sliceOp(s *State, in *ssa.Slice) {
	fr := s.top()
	base := x.valueOf(s, in.X)
	z := x.ilit(0)
	get := func(v ssa.Value, def T) T {
		if v == nil {
			return def
		}
		return x.toGoInt(x.valueOf(s, v).T, true)
	}
	if isString(in.X.Type()) {
		l := x.strLen(s, base.T)
		lo, hi := get(in.Low, z), get(in.High, l)
		if x.sweep {
			x.oblige(s, "slice-bounds", x.label(in), And(x.le(z, lo), x.le(lo, hi), x.le(hi, l)), in.Pos(), nil)
		}
		s.assume(And(x.le(z, lo), x.le(lo, hi), x.le(hi, l)))
		res := x.strSub(s, base.T, lo, hi)
		fr.env[in] = scalar(res)
		return
	}
	switch t := in.X.Type().Underlying().(type) {
	case *types.Slice:
		lo, hi := get(in.Low, z), get(in.High, base.Len)
		mx := get(in.Max, base.Cap)
		if x.sweep {
			x.oblige(s, "slice-bounds", x.label(in), And(x.le(z, lo), x.le(lo, hi), x.le(hi, mx), x.le(mx, base.Cap)), in.Pos(), nil)
		}
		s.assume(And(x.le(z, lo), x.le(lo, hi), x.le(hi, mx), x.le(mx, base.Cap)))
		fr.env[in] = Val{K: vSlice, Arr: base.Arr, Off: x.add(base.Off, lo), Len: x.sub(hi, lo), Cap: x.sub(mx, lo), Typ: in.Type()}
	case *types.Pointer:
		at := t.Elem().Underlying().(*types.Array)
		n := x.ilit(at.Len())
		lo, hi := get(in.Low, z), get(in.High, n)
		if x.sweep {
			x.oblige(s, "slice-bounds", x.label(in), And(x.le(z, lo), x.le(lo, hi), x.le(hi, n)), in.Pos(), nil)
		}
		fr.env[in] = Val{K: vSlice, Arr: base.T, Off: lo, Len: x.sub(hi, lo), Cap: x.sub(n, lo), Typ: in.Type()}
	default:
		x.unsupported("slice of %s", in.X.Type())
		fr.env[in] = x.freshVal(s, "slice", in.Type())
	}
}

// strSub builds s[lo:hi] with the facts the proofs need (instantiated at creation).
func (x *Exec) strSub(s *State, str, lo, hi T) T {
	r := x.define(s, "sub", mk(SStr, "str.sub_", str, lo, hi))
	l := x.strLenRaw(str)
	s.assume(Eq(x.strLenRaw(r), x.sub(hi, lo)))
	s.assume(mk(SBool, "=", Eq(lo, hi), Eq(r, T{"str.empty", SStr})))
	s.assume(Implies(And(Eq(lo, x.ilit(0)), Eq(hi, l)), Eq(r, str)))
	return r
}

// rangeKey: the state key holding the byte offset of a range-over-string iterator.
func (x *Exec) rangeKey(rg *ssa.Range) string {
	return "R:" + x.p.Names[rg.Parent()] + ":" + rg.Name()
}
