package main

// Solver portfolio: z3-new, z3 4.8, cvc5. One self-contained .smt2 file per obligation.

import (
	"bytes"
	"context"
	"crypto/sha256"
	"fmt"
	"os"
	"os/exec"
	"path/filepath"
	"strings"
	"sync"
	"time"
)

type solverSpec struct {
	name string
	args func(file string, timeoutS int) []string
}

var solvers = []solverSpec{
	{"z3-new", func(f string, t int) []string { return []string{"z3-new", fmt.Sprintf("-T:%d", t), f} }},
	{"z3", func(f string, t int) []string { return []string{"z3", fmt.Sprintf("-T:%d", t), f} }},
	{"cvc5", func(f string, t int) []string {
		return []string{"cvc5", fmt.Sprintf("--tlimit=%d", t*1000), "--strings-exp", "--produce-models", f}
	}},
}

type solveResult struct {
	status string // unsat sat unknown timeout error
	solver string
	time   float64
	output string
	all    map[string]string
}

type Pool struct {
	workDir  string
	timeoutS int
	thorough bool
	keep     bool
	sem      chan struct{}
	wg       sync.WaitGroup
	mu       sync.Mutex
	cache    map[[32]byte]*solveResult
	queries  int
	cacheHits int
	totalTime float64
	maxTime   float64
}

func newPool(workDir string, workers, timeoutS int, thorough bool) *Pool {
	os.MkdirAll(workDir, 0o755)
	return &Pool{workDir: workDir, timeoutS: timeoutS, thorough: thorough, sem: make(chan struct{}, workers), cache: map[[32]byte]*solveResult{}}
}

var procSem = make(chan struct{}, 16)

func runSolver(sp solverSpec, file string, timeoutS int) (string, string, float64) {
	return runSolverCtx(context.Background(), sp, file, timeoutS)
}

func runSolverCtx(parent context.Context, sp solverSpec, file string, timeoutS int) (string, string, float64) {
	procSem <- struct{}{}
	defer func() { <-procSem }()
	if parent.Err() != nil {
		return "cancelled", "", 0
	}
	ctx, cancel := context.WithTimeout(parent, time.Duration(timeoutS+2)*time.Second)
	defer cancel()
	args := sp.args(file, timeoutS)
	cmd := exec.CommandContext(ctx, args[0], args[1:]...)
	var out bytes.Buffer
	cmd.Stdout = &out
	cmd.Stderr = &out
	t0 := time.Now()
	_ = cmd.Run() // exit codes are unreliable (z3 4.8 exits 1 on get-model after unsat)
	dt := time.Since(t0).Seconds()
	txt := out.String()
	first := strings.TrimSpace(strings.SplitN(txt, "\n", 2)[0])
	switch first {
	case "unsat", "sat", "unknown":
		return first, txt, dt
	case "timeout":
		return "timeout", txt, dt
	}
	if parent.Err() != nil {
		return "cancelled", txt, dt
	}
	if ctx.Err() != nil || strings.Contains(txt, "timeout") || strings.Contains(txt, "interrupted") {
		return "timeout", txt, dt
	}
	return "error", txt, dt
}

// solve runs the portfolio on one query.
func (p *Pool) solve(name, query string) *solveResult { return p.solveT(name, query, p.timeoutS) }

func (p *Pool) solveT(name, query string, timeoutS int) *solveResult {
	saved := p.timeoutS
	_ = saved
	return p.solveWith(name, query, timeoutS)
}

func (p *Pool) solveWith(name, query string, tmo int) *solveResult {
	h := sha256.Sum256([]byte(query))
	p.mu.Lock()
	if r, ok := p.cache[h]; ok {
		p.cacheHits++
		p.mu.Unlock()
		return r
	}
	p.queries++
	n := p.queries
	p.mu.Unlock()
	file := filepath.Join(p.workDir, fmt.Sprintf("q%06d.smt2", n))
	os.WriteFile(file, []byte("; "+name+"\n"+query), 0o644)
	res := &solveResult{all: map[string]string{}}
	decisive := func(s string) bool { return s == "unsat" || s == "sat" }
	t0 := time.Now()
	if p.thorough {
		// all three to completion, cross-checked
		var wg sync.WaitGroup
		var mu sync.Mutex
		outs := map[string]string{}
		for _, sp := range solvers {
			wg.Add(1)
			go func(sp solverSpec) {
				defer wg.Done()
				st, out, _ := runSolver(sp, file, tmo)
				mu.Lock()
				res.all[sp.name] = st
				outs[sp.name] = out
				mu.Unlock()
			}(sp)
		}
		wg.Wait()
		res.status = "unknown"
		for _, sp := range solvers {
			if decisive(res.all[sp.name]) {
				if decisive(res.status) && res.status != res.all[sp.name] {
					res.status = "conflict"
					res.output = fmt.Sprintf("solver disagreement: %v", res.all)
					break
				}
				if !decisive(res.status) {
					res.status, res.solver, res.output = res.all[sp.name], sp.name, outs[sp.name]
				}
			}
		}
		if !decisive(res.status) && res.status != "conflict" {
			res.output = fmt.Sprintf("%v", res.all)
			for _, st := range res.all {
				if st == "error" {
					res.status = "unknown"
				}
			}
		}
	} else {
		// fast path: z3-new with a short budget, then the others in parallel
		first := 3
		if tmo < first {
			first = tmo
		}
		lead := solvers[0]
		if strings.Contains(query, "fp.") {
			// floating-point goals: cvc5 decides in a second what z3-new needs tens of seconds for
			lead = solvers[2]
		}
		st, out, _ := runSolver(lead, file, first)
		res.all[lead.name] = st
		if decisive(st) {
			res.status, res.solver, res.output = st, lead.name, out
		} else {
			// all three race; the first decisive answer wins and the others are stopped
			type r struct {
				sp  solverSpec
				st  string
				out string
			}
			ctx, cancel := context.WithCancel(context.Background())
			ch := make(chan r, 3)
			for _, sp := range solvers {
				go func(sp solverSpec) {
					st, out, _ := runSolverCtx(ctx, sp, file, tmo)
					ch <- r{sp, st, out}
				}(sp)
			}
			res.status = "unknown"
			for i := 0; i < 3; i++ {
				rr := <-ch
				if rr.st != "cancelled" {
					res.all[rr.sp.name] = rr.st
				}
				if decisive(rr.st) && !decisive(res.status) {
					res.status, res.solver, res.output = rr.st, rr.sp.name, rr.out
					cancel()
				}
				if rr.st == "error" && res.output == "" {
					res.output = rr.out
				}
			}
			cancel()
			if !decisive(res.status) {
				res.status = "unknown"
				for _, s2 := range res.all {
					if s2 == "timeout" {
						res.status = "timeout"
					}
				}
				allErr := true
				for _, s2 := range res.all {
					if s2 != "error" {
						allErr = false
					}
				}
				if allErr {
					res.status = "error"
				}
			}
		}
	}

	res.time = time.Since(t0).Seconds()
	p.mu.Lock()
	p.cache[h] = res
	p.totalTime += res.time
	if res.time > p.maxTime {
		p.maxTime = res.time
	}
	p.mu.Unlock()
	if res.status != "unsat" && res.status != "sat" {
		res.output += fmt.Sprintf("\nportfolio: %v", res.all)
	}
	if !p.keep && (res.status == "unsat") {
		// other portfolio members may still be reading the file for a moment; removal is safe on Linux
		os.Remove(file)
	} else {
		res.output = "file: " + file + "\n" + res.output
	}
	return res
}

// submit solves an obligation asynchronously.
func (p *Pool) submit(o *Obligation, done func(*Obligation)) {
	if o.Trivial {
		done(o)
		return
	}
	p.wg.Add(1)
	p.sem <- struct{}{}
	go func() {
		defer func() { <-p.sem; p.wg.Done() }()
		var r *solveResult
		if o.Cover && o.Fn == "axioms" {
			r = p.solve(o.Name, o.Query) // the one cover that must come back `sat`
		} else if o.Cover {
			r = p.solveT(o.Name, o.Query, 4) // satisfiability of the assumptions: a short look is enough
		} else {
			r = p.solve(o.Name, o.Query)
		}
		if r.status != "unsat" && o.QueryFull != "" && !o.Cover {
			// the slice may have dropped the facts that make this path infeasible
			r2 := p.solve(o.Name, o.QueryFull)
			r2.time += r.time
			r = r2
		}
		o.QueryFull = ""
		o.Status, o.Solver, o.Time = r.status, r.solver, r.time
		if r.status != "unsat" {
			o.Model = r.output
		}
		if r.status == "unsat" || r.status == "sat" {
			o.Query = "" // free memory
		}
		done(o)
	}()
}

func (p *Pool) wait() { p.wg.Wait() }
