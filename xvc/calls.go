package main

// Calls: builtins, assumed contracts on the standard library and on the client's
// NodeNavigator, package functions by contract (or inlined), function values by
// field contract.

import (
	"fmt"
	"go/ast"
	"go/parser"
	"go/types"
	"sort"
	"strings"

	"golang.org/x/tools/go/ssa"
)

func (x *Exec) contractOf(f *ssa.Function) *FuncContract {
	if f == nil {
		return nil
	}
	return x.p.effectiveContract(f)
}

// effectiveContract: the function's own contract; a method implementing a contracted interface
// method without a frame of its own inherits that contract's frame.
func (p *Program) effectiveContract(f *ssa.Function) *FuncContract {
	if p.effC == nil {
		p.effC = map[*ssa.Function]*FuncContract{}
	}
	if c, ok := p.effC[f]; ok {
		return c
	}
	fc := p.Ctr.Funcs[p.Names[f]]
	res := fc
	if recv := f.Signature.Recv(); recv != nil && (fc == nil || (!fc.HasMod && len(fc.Preserves) == 0)) {
		for key, ic := range p.Ctr.Ifaces {
			i := strings.LastIndex(key, ".")
			if key[i+1:] != f.Name() || (!ic.HasMod && len(ic.Preserves) == 0) {
				continue
			}
			it := p.lookupType(key[:i])
			if it == nil || !types.Implements(recv.Type(), it.Underlying().(*types.Interface)) {
				continue
			}
			if fc == nil {
				continue // callers fall back to the interface contract semantics only when a block exists
			}
			cp := *fc
			cp.HasMod, cp.Modifies, cp.Preserves = ic.HasMod, ic.Modifies, ic.Preserves
			res = &cp
		}
	}
	p.effC[f] = res
	return res
}

// execCall returns true when it has taken over control flow (resume is called from inside).
func (x *Exec) execCall(s *State, in *ssa.Call, resume func(*State)) bool {
	fr := s.top()
	c := in.Common()
	set := func(v Val) {
		fr.env[in] = v
		x.reassumeCaptures(s)
	}
	if _, cond := fr.ranCond[in]; cond {
		// the call runs now, whatever was known about earlier rounds or merged paths
		cp := make(map[ssa.Value]T, len(fr.ranCond))
		for k2, v2 := range fr.ranCond {
			if k2 != ssa.Value(in) {
				cp[k2] = v2
			}
		}
		fr.ranCond = cp
	}
	if b, ok := c.Value.(*ssa.Builtin); ok {
		set(x.builtin(s, in, b))
		return false
	}
	var args []Val
	for _, a := range c.Args {
		args = append(args, x.valueOf(s, a))
	}
	if fr.callArgs == nil {
		fr.callArgs = map[ssa.Value][]Val{}
	}
	fr.callArgs[in] = args
	restore := x.preCall(s, in, args)
	defer restore()
	if c.IsInvoke() {
		recv := x.valueOf(s, c.Value)
		if x.sweep {
			x.oblige(s, "nil-deref", x.label(in), Not(Eq(recv.T, T{"inil", SIface})), in.Pos(), nil)
		}
		s.assume(Not(Eq(recv.T, T{"inil", SIface})))
		set(x.invoke(s, in, recv, args))
		return false
	}
	if sc := c.StaticCallee(); sc != nil {
		if sc.Pkg != x.p.SSA && x.p.Names[sc] == "" {
			set(x.stdlib(s, in, sc, args))
			return false
		}
		var binds []Val
		if mc, ok := c.Value.(*ssa.MakeClosure); ok {
			for _, b := range mc.Bindings {
				binds = append(binds, x.valueOf(s, b))
			}
		}
		return x.callPackage(s, in, sc, args, binds, resume)
	}
	// function value
	fv := x.valueOf(s, c.Value)
	if x.sweep {
		x.oblige(s, "nil-func-call", x.label(in), Not(Eq(fv.T, IntLit(0))), in.Pos(), nil)
	}
	s.assume(Not(Eq(fv.T, IntLit(0))))
	// closure created on this path?
	if mc, ok := c.Value.(*ssa.MakeClosure); ok {
		var binds []Val
		for _, b := range mc.Bindings {
			binds = append(binds, x.valueOf(s, b))
		}
		return x.callPackage(s, in, mc.Fn.(*ssa.Function), args, binds, resume)
	}
	set(x.callFuncValue(s, in, c.Value, fv, args))
	return false
}

func (x *Exec) builtin(s *State, in *ssa.Call, b *ssa.Builtin) Val {
	c := in.Common()
	switch b.Name() {
	case "len":
		a := x.valueOf(s, c.Args[0])
		t := c.Args[0].Type()
		switch {
		case isString(t):
			return scalar(x.strLen(s, a.T))
		case isSlice(t):
			return scalar(a.Len)
		}
		if _, ok := t.Underlying().(*types.Map); ok {
			mk_ := "M:" + typeStr(t)
			sz := Select(x.heapSym(s, mk_+":size", SArray(SInt, x.intSort())), a.T, x.intSort())
			r := x.define(s, "maplen", Ite(Eq(a.T, IntLit(0)), x.ilit(0), sz))
			s.assume(x.le(x.ilit(0), r))
			return scalar(r)
		}
	case "cap":
		a := x.valueOf(s, c.Args[0])
		if a.K == vSlice {
			return scalar(a.Cap)
		}
	case "append":
		return x.appendOp(s, in)
	case "recover":
		fr := s.top()
		// inside a deferred closure: the frame below holds the in-flight panic
		if len(s.frames) >= 2 {
			outer := s.frames[len(s.frames)-2]
			if outer.panicking != nil {
				outer.recovered = true
				return *outer.panicking
			}
		}
		_ = fr
		return scalar(T{"inil", SIface})
	}
	x.unsupported("builtin %s", b.Name())
	return x.freshVal(s, "builtin", in.Type())
}

// append(sl, elems...): result keeps the first len elements, may or may not alias.
func (x *Exec) appendOp(s *State, in *ssa.Call) Val {
	c := in.Common()
	base := x.valueOf(s, c.Args[0])
	add := x.valueOf(s, c.Args[1])
	st := in.Type().Underlying().(*types.Slice)
	if base.K != vSlice || add.K != vSlice {
		x.unsupported("append on non-slice values")
		return x.freshVal(s, "append", in.Type())
	}
	key := "S:" + typeStr(st.Elem())
	is := x.intSort()
	newLen := x.define(s, "alen", x.add(base.Len, add.Len))
	// copy-on-grow modelled as: fresh backing array whose prefix equals the old contents,
	// or the same backing array when capacity suffices. Both are covered by a fresh array
	// reference r with r == base.Arr allowed only if newLen <= cap.
	r := x.fresh(s, "append.arr", SInt)
	off := x.fresh(s, "append.off", is)
	capv := x.fresh(s, "append.cap", is)
	al := x.heapSym(s, "alloc", SArray(SInt, SBool))
	inPlace := And(Eq(r, base.Arr), Eq(off, base.Off), Eq(capv, base.Cap), x.le(newLen, base.Cap))
	grown := And(Not(Select(al, r, SBool)), mk(SBool, ">", r, IntLit(0)), Eq(off, x.ilit(0)), x.le(newLen, capv))
	s.assume(Or(inPlace, grown))
	s.assume(And(x.le(newLen, x.ilit(1<<40)), x.le(capv, x.ilit(1<<40))))
	x.heapSet(s, "alloc", Store(al, r, TTrue))
	s.fresh = append(s.fresh, r)
	s.freshArrays = append(s.freshArrays, arrRec{r, key})
	// an in-place append writes the existing backing array
	x.frameCheck(s, in, base.Arr, key)
	// element contents: only for scalar element sorts and single-element appends we keep precision
	if !isSlice(st.Elem()) {
		so := x.sortOf(st.Elem())
		as := SArray(is, so)
		arr := x.heapSym(s, key, SArray(SInt, as))
		oldInner := Select(arr, base.Arr, as)
		newInner := x.fresh(s, "append.elems", as)
		// prefix preserved (absolute indices, so that the trigger contains no arithmetic)
		kk := T{"k!a", is}
		s.facts = append(s.facts, T{fmt.Sprintf("(forall ((k!a %s)) (! (=> (and %s %s) (= (select %s k!a) (select %s %s))) :pattern ((select %s k!a))))",
			is, x.le(off, kk).S, x.lt(kk, x.add(off, base.Len)).S,
			newInner.S, oldInner.S, x.add(x.sub(kk, off), base.Off).S, newInner.S), SBool})
		// appended elements when the addend is a one-element literal slice
		if one, ok := x.singleElem(s, c.Args[1]); ok && one.K == vScalar {
			s.assume(Eq(Select(newInner, x.add(off, base.Len), so), one.T))
		} else if n := literalArrayLen(c.Args[1]); n >= 2 && n <= 8 {
			// append(s, a, b, ...): the addend is a whole n-element array literal; element by element
			addInner := Select(arr, add.Arr, as)
			for i := int64(0); i < n; i++ {
				s.assume(Eq(Select(newInner, x.add(x.add(off, base.Len), x.ilit(i)), so), Select(addInner, x.add(add.Off, x.ilit(i)), so)))
			}
		}
		x.heapSet(s, key, Store(arr, r, newInner))
	}
	return Val{K: vSlice, Arr: r, Off: off, Len: newLen, Cap: capv, Typ: in.Type()}
}

// literalArrayLen: v is `arr[:]` of a local array literal (the varargs of append(s, a, b, ...)); its length, or 0.
func literalArrayLen(v ssa.Value) int64 {
	sl, ok := v.(*ssa.Slice)
	if !ok || sl.Low != nil || sl.High != nil || sl.Max != nil {
		return 0
	}
	al, ok := sl.X.(*ssa.Alloc)
	if !ok {
		return 0
	}
	at, ok := al.Type().(*types.Pointer).Elem().Underlying().(*types.Array)
	if !ok {
		return 0
	}
	return at.Len()
}

// singleElem recognises the SSA shape of append(s, v): a 1-element array literal sliced.
func (x *Exec) singleElem(s *State, v ssa.Value) (Val, bool) {
	sl, ok := v.(*ssa.Slice)
	if !ok {
		return Val{}, false
	}
	al, ok := sl.X.(*ssa.Alloc)
	if !ok {
		return Val{}, false
	}
	at, ok := al.Type().(*types.Pointer).Elem().Underlying().(*types.Array)
	if !ok || at.Len() != 1 {
		return Val{}, false
	}
	for _, ref := range *al.Referrers() {
		if ia, ok := ref.(*ssa.IndexAddr); ok {
			for _, r2 := range *ia.Referrers() {
				if st, ok := r2.(*ssa.Store); ok && st.Addr == ia {
					return x.valueOf(s, st.Val), true
				}
			}
		}
	}
	return Val{}, false
}

// callModifies: heap keys a call may write (for loop havoc); everything=true when unknown.
func (x *Exec) callModifies(c *ssa.CallCommon) ([]string, bool) {
	if _, ok := c.Value.(*ssa.Builtin); ok {
		return []string{"alloc", "S:*"}, false
	}
	if c.IsInvoke() {
		it := c.Value.Type()
		name := typeStr(it) + "." + c.Method.Name()
		if typeStr(it) == "NodeNavigator" {
			return []string{"navpos", "alloc"}, false
		}
		if fc := x.p.Ctr.Ifaces[name]; fc != nil && fc.HasMod {
			return x.modKeys(fc), false
		}
		switch name {
		case "iterator.Current", "error.Error", "node.Type":
			return nil, false
		}
		return nil, true
	}
	if sc := c.StaticCallee(); sc != nil {
		if sc.Pkg != x.p.SSA && x.p.Names[sc] == "" {
			if r := sc.Signature.Recv(); r != nil {
				switch typeStr(r.Type()) {
				case "*bytes.Buffer", "*strings.Builder":
					return []string{"alloc", "ghost:buf"}, false
				case "*sync.Pool":
					return []string{"alloc", "ghost:buf", "ghost:inpool"}, false
				}
			}
			return []string{"alloc"}, false
		}
		if fc := x.contractOf(sc); fc != nil && fc.HasMod {
			return x.modKeys(fc), false
		}
		return nil, true
	}
	// function value: field contract if the callee expression is a field load
	if fk := fieldOfValue(c.Value); fk != "" {
		fc := x.p.Ctr.Fields[fk]
		if fc == nil {
			fc = x.p.Ctr.Fields["*"+fk[strings.Index(fk, "."):]]
		}
		if fc != nil && fc.HasMod {
			return x.modKeys(fc), false
		}
	}
	return nil, true
}

func (x *Exec) modKeys(fc *FuncContract) []string {
	ks := []string{"alloc"}
	// ghost state the contract updates is written too
	for _, cl := range fc.clauses("ghost") {
		if i := strings.Index(cl.Name, "("); i > 0 {
			ks = append(ks, "ghost:"+strings.TrimSpace(cl.Name[:i]))
		}
	}
	for _, m := range fc.Modifies {
		if strings.HasPrefix(m, "heap(") {
			ks = append(ks, strings.TrimSuffix(strings.TrimPrefix(m, "heap("), ")"))
			continue
		}
		if i := strings.LastIndex(m, "."); i > 0 {
			// x.f : we do not know x's static type here; havoc every field heap with that field name
			ks = append(ks, "F:*."+m[i+1:])
		}
	}
	return ks
}

func keyMatches(pats []string, key string) bool {
	key = stripSuf(key)
	for _, p := range pats {
		if p == key {
			return true
		}
		if strings.Contains(p, "*") && globMatch(p, key) {
			return true
		}
	}
	return false
}

func globMatch(pat, s string) bool {
	parts := strings.Split(pat, "*")
	if !strings.HasPrefix(s, parts[0]) {
		return false
	}
	s = s[len(parts[0]):]
	for i := 1; i < len(parts); i++ {
		p := parts[i]
		if i == len(parts)-1 {
			return strings.HasSuffix(s, p)
		}
		j := strings.Index(s, p)
		if j < 0 {
			return false
		}
		s = s[j+len(p):]
	}
	return true
}

func (x *Exec) callIsTreeFrame(c *ssa.CallCommon) bool {
	if c.IsInvoke() {
		fc := x.p.Ctr.Ifaces[typeStr(c.Value.Type())+"."+c.Method.Name()]
		return fc != nil && fc.TreeFrame
	}
	if sc := c.StaticCallee(); sc != nil {
		fc := x.contractOf(sc)
		return fc != nil && fc.TreeFrame
	}
	return false
}

// fieldOfValue: "T.f" when v is (a load of) a struct field.
func fieldOfValue(v ssa.Value) string {
	if u, ok := v.(*ssa.UnOp); ok {
		if fa, ok := u.X.(*ssa.FieldAddr); ok {
			k, _ := fieldKey(fa.X.Type().Underlying().(*types.Pointer).Elem(), fa.Field)
			return strings.TrimPrefix(k, "F:")
		}
	}
	return ""
}

// ---------------------------------------------------------------- package functions

func (x *Exec) callPackage(s *State, in *ssa.Call, callee *ssa.Function, args []Val, binds []Val, resume func(*State)) bool {
	fr := s.top()
	fc := x.contractOf(callee)
	name := x.p.Names[callee]
	inline := fc != nil && fc.Inline
	if fc == nil && binds == nil && x.autoInline(callee) {
		inline = true
	}
	if binds != nil && fc == nil {
		inline = true // immediately-invoked closure without contract
	}
	if len(callee.FreeVars) > 0 && binds == nil {
		inline = false
	}
	if inline && x.inlineDepth < 6 {
		if fc != nil {
			// the preconditions of an inlined function are checked where it is inlined
			env := &specEnv{x: x, s: s, where: "contract " + fc.Key, vars: map[string]sval{}}
			for i, p := range callee.Params {
				if p.Name() != "" && p.Name() != "_" {
					env.vars[p.Name()] = sval{v: args[i], typ: p.Type()}
				}
			}
			for i, cl := range fc.clauses("requires") {
				if t, err := env.evalBool(cl.Expr); err == nil {
					x.oblige(s, "call-requires", fmt.Sprintf("%s/%s", x.label(in), clauseLabel(cl, i)), t, in.Pos(), cl.Props)
					s.assume(t)
				} else {
					x.unsupported("requires of %s: %v", fc.Key, err)
				}
			}
		}
		x.inlineDepth++
		callerFrames := len(s.frames)
		x.execFunction(s, callee, args, binds, func(s2 *State, res []Val) {
			fr2 := s2.frames[callerFrames-1]
			switch len(res) {
			case 0:
			case 1:
				fr2.env[in] = res[0]
			default:
				fr2.env[in] = Val{K: vTuple, Parts: res}
			}
			d := x.inlineDepth
			x.inlineDepth = d - 1
			resume(s2)
			x.inlineDepth = d
		})
		x.inlineDepth--
		return true
	}
	if fc == nil {
		// no contract: anything reachable may change; result only typed
		x.assumed["uncontracted call havocs the heap: "+name] = true
		x.callFrameCheck(s, in, nil, nil)
		x.havocAll(s, nil)
		fr.env[in] = x.resultVal(s, in, callee.Signature.Results())
		x.reassumeCaptures(s)
		return false
	}
	if fc.Pure && callee.Signature.Results().Len() == 1 {
		var ts []T
		sig := "("
		ok := true
		for i, a := range args {
			if a.K != vScalar {
				ok = false
				break
			}
			if i > 0 {
				sig += " "
			}
			sig += string(a.T.Sort)
			ts = append(ts, a.T)
		}
		if ok {
			rs := x.sortOf(callee.Signature.Results().At(0).Type())
			fn := "pure!" + sanitize(name)
			x.declFun(s, fn, sig+") "+string(rs))
			x.assumed["pure function (deterministic, no side effects): "+name] = true
			rv := scalar(mk(rs, fn, ts...))
			fr.env[in] = rv
			// what the function promises about its result (proved where it is verified)
			penv := &specEnv{x: x, s: s, where: "contract " + fc.Key, vars: map[string]sval{}}
			for i, p := range callee.Params {
				if p.Name() != "" && p.Name() != "_" {
					penv.vars[p.Name()] = sval{v: args[i], typ: p.Type()}
				}
			}
			penv.vars["result"] = sval{v: rv, typ: callee.Signature.Results().At(0).Type()}
			for _, cl := range fc.clauses("ensures") {
				if t, err := penv.evalBool(cl.Expr); err == nil {
					s.assume(t)
				}
			}
			return false
		}
	}
	x.recursionCheck(s, in, fc, callee, args)
	if fc.MayPanic && len(fr.defers) > 0 {
		x.mayPanicFork(s, name, fr.k)
	}
	fr.env[in] = x.applyContract(s, in, fc, callee, args, nil, callee.Signature)
	x.reassumeCaptures(s)
	return false
}

// recursionCheck: on a call between two functions that carry a recursion measure, the callee's
// measure (a lexicographic tuple of non-negative integers) is smaller than the caller's at entry.
// Bounded components make this a bound on the depth of the call stack.
func (x *Exec) recursionCheck(s *State, in *ssa.Call, fc *FuncContract, callee *ssa.Function, args []Val) {
	me := x.fnc
	if me == nil || len(s.frames) != 1 || len(me.clauses("rdecreases")) == 0 || len(fc.clauses("rdecreases")) == 0 {
		return
	}
	mine := x.measureOf(s, me, nil, nil, true)
	env := &specEnv{x: x, s: s, where: "decreases " + fc.Key, vars: map[string]sval{}}
	for i, p := range callee.Params {
		env.vars[p.Name()] = sval{v: args[i], typ: p.Type()}
	}
	theirs := x.measureOf(s, fc, env, nil, false)
	if mine == nil || theirs == nil || len(mine) != len(theirs) {
		x.unsupported("recursion measures of %s / %s do not line up", me.Key, fc.Key)
		return
	}
	z := x.ilit(0)
	var lex T = TFalse
	for i := len(mine) - 1; i >= 0; i-- {
		lex = Or(x.lt(theirs[i], mine[i]), And(Eq(theirs[i], mine[i]), lex))
	}
	var nonneg []T
	for i := range mine {
		nonneg = append(nonneg, x.le(z, theirs[i]), x.le(z, mine[i]))
	}
	x.oblige(s, "decreases", "call:"+x.label(in), And(append(nonneg, lex)...), in.Pos(), []string{"C06"})
}

func (x *Exec) measureOf(s *State, fc *FuncContract, env *specEnv, _ []Val, atEntry bool) []T {
	cls := fc.clauses("rdecreases")
	if len(cls) == 0 {
		return nil
	}
	var out []T
	for _, part := range splitTopLevel(cls[0].Expr, ',') {
		e := env
		if e == nil {
			e = x.specEnvFor(s, "decreases")
			e.old = atEntry
		}
		t, err := e.evalInt(strings.TrimSpace(part))
		if err != nil {
			x.unsupported("decreases of %s: %v", fc.Key, err)
			return nil
		}
		out = append(out, t)
	}
	return out
}

// preCall: objects allocated by this function that the callee can reach (passed as argument or
// already stored somewhere) must satisfy their invariant now; the others are out of the callee's
// reach and keep their field values across the call.
func (x *Exec) preCall(s *State, in *ssa.Call, args []Val) func() {
	_, hasBuf := s.heap["ghost:buf"]
	if len(s.allocTypes) == 0 && len(s.freshArrays) == 0 && !(hasBuf && len(s.fresh) > 0) {
		return func() {}
	}
	reach := func(ref T) bool {
		if s.escaped[ref.S] {
			return true
		}
		for _, a := range args {
			for _, t := range []T{a.T, a.Arr, a.Base} {
				if t.S != "" && strings.Contains(t.S, ref.S) {
					return true
				}
			}
		}
		if in.Common().IsInvoke() || in.Common().StaticCallee() == nil {
			if v := x.valueOf(s, in.Common().Value); strings.Contains(v.T.S, ref.S) {
				return true
			}
		}
		return false
	}
	var keep, hand []allocRec
	for _, r := range s.allocTypes {
		if reach(r.ref) {
			hand = append(hand, r)
		} else {
			keep = append(keep, r)
		}
	}
	for _, r := range hand {
		if len(x.p.Ctr.Invs[typeStr(r.t)]) > 0 {
			x.oblige(s, "inv-established", typeStr(r.t)+"@"+r.site, x.invTerm(s, r.ref, r.t), in.Pos(), nil)
		}
	}
	s.allocTypes = keep
	pre := make(map[string]T, len(s.heap))
	for k, v := range s.heap {
		pre[k] = v
	}
	var keepArr []arrRec
	for _, a := range s.freshArrays {
		if !reach(a.ref) {
			keepArr = append(keepArr, a)
		}
	}
	s.freshArrays = keepArr
	// string builders / buffers obtained by this activation (from the pool or newly made) that the
	// callee cannot reach keep their content
	var keepBuf []T
	if hasBuf {
		for _, r := range s.fresh {
			if !reach(r) {
				keepBuf = append(keepBuf, r)
			}
		}
	}
	return func() {
		if old, ok1 := pre["ghost:buf"]; ok1 {
			if cur, ok2 := s.heap["ghost:buf"]; ok2 && old.S != cur.S {
				for _, r := range keepBuf {
					s.assume(Eq(Select(cur, r, SStr), Select(old, r, SStr)))
				}
			}
		}
		for _, a := range keepArr {
			for _, suf := range []string{"", "#a", "#o", "#l", "#c"} {
				k := a.key + suf
				old, ok1 := pre[k]
				cur, ok2 := s.heap[k]
				if ok1 && ok2 && old.S != cur.S {
					s.assume(mk(SBool, "=", mk("", "select", cur, a.ref), mk("", "select", old, a.ref)))
				}
			}
		}
		for _, r := range keep {
			st, ok := r.t.Underlying().(*types.Struct)
			if !ok {
				continue
			}
			for i := 0; i < st.NumFields(); i++ {
				key, ft := fieldKey(r.t, i)
				for _, e := range x.elemSorts(ft) {
					k := key + e.suf
					old, ok1 := pre[k]
					cur, ok2 := s.heap[k]
					if ok1 && ok2 && old.S != cur.S {
						s.assume(Eq(Select(cur, r.ref, e.sort), Select(old, r.ref, e.sort)))
					}
				}
			}
		}
	}
}

// reassumeCaptures: `captures` clauses are invariants of the captured cells (every store to such
// a cell re-checks them), so they hold again after a call that may have run other code.
func (x *Exec) reassumeCaptures(s *State) {
	fr := s.top()
	if len(fr.fn.FreeVars) == 0 {
		return
	}
	fc := x.contractOf(fr.fn)
	if fc == nil {
		return
	}
	for _, cl := range fc.clauses("captures") {
		env := x.specEnvFor(s, "captures")
		if t, err := env.evalBool(cl.Expr); err == nil {
			s.assume(t)
		}
	}
}

func (x *Exec) autoInline(f *ssa.Function) bool {
	if len(f.Blocks) == 0 || len(f.Blocks) > 12 || len(f.AnonFuncs) > 0 {
		return false
	}
	n := 0
	for _, b := range f.Blocks {
		for _, p := range b.Preds {
			if b.Dominates(p) {
				return false // loops need invariants
			}
		}
		for _, in := range b.Instrs {
			if _, ok := in.(*ssa.DebugRef); ok {
				continue
			}
			n++
			if c, ok := in.(ssa.CallInstruction); ok {
				if sc := c.Common().StaticCallee(); sc != nil && sc.Pkg == x.p.SSA {
					return false // keep modular: callee calls other package code
				}
			}
		}
	}
	return n <= 40
}

func (x *Exec) resultVal(s *State, in *ssa.Call, res *types.Tuple) Val {
	switch res.Len() {
	case 0:
		return Val{K: vNone}
	case 1:
		return x.freshVal(s, "ret."+instrDesc(in), res.At(0).Type())
	}
	return x.freshVal(s, "ret."+instrDesc(in), res)
}

// applyContract: check requires, havoc modifies, assume ensures. recv != nil for interface/field contracts.
func (x *Exec) applyContract(s *State, in *ssa.Call, fc *FuncContract, callee *ssa.Function, args []Val, recv *sval, sig *types.Signature) Val {
	env := &specEnv{x: x, s: s, where: "contract " + fc.Key, vars: map[string]sval{}}
	bind := func(name string, v Val, t types.Type) {
		if name != "" && name != "_" {
			env.vars[name] = sval{v: v, typ: t}
		}
	}
	if callee != nil {
		for i, p := range callee.Params {
			bind(p.Name(), args[i], p.Type())
			if fc.Receiver != "" && p.Name() == fc.Receiver {
				rv := sval{v: args[i], typ: p.Type()}
				recv = &rv
				env.vars["self"] = rv
			}
		}
		// variables the callee closes over, as the caller holds them
		if mc, ok := in.Common().Value.(*ssa.MakeClosure); ok && len(mc.Bindings) == len(callee.FreeVars) {
			for i, fv := range callee.FreeVars {
				if _, shadow := env.vars[fv.Name()]; shadow {
					continue
				}
				pt, ok := fv.Type().(*types.Pointer)
				if !ok {
					continue
				}
				cell := x.valueOf(s, mc.Bindings[i])
				if cell.K != vScalar {
					continue
				}
				if ci := x.p.cellOfFreeVar(fv); ci != nil {
					cell.Key = ci.key
				}
				bind(fv.Name(), x.load(s, cell, pt.Elem(), false), pt.Elem())
			}
		}
	} else {
		if recv != nil {
			env.vars["self"] = *recv
		}
		if x.callFnSelf.K == vScalar && x.callFnSelf.T.S != "" {
			env.vars["fnself"] = sval{v: x.callFnSelf}
		}
		for i, pn := range fc.Params {
			if i < len(args) && i < sig.Params().Len() {
				bind(pn, args[i], sig.Params().At(i).Type())
			}
		}
	}
	site := x.label(in)
	for i, cl := range fc.clauses("requires") {
		t, err := env.evalBool(cl.Expr)
		if err != nil {
			x.unsupported("requires of %s: %v", fc.Key, err)
			continue
		}
		x.oblige(s, "call-requires", fmt.Sprintf("%s/%s", site, clauseLabel(cl, i)), t, in.Pos(), cl.Props)
		s.assume(t)
	}
	x.callFrameCheck(s, in, fc, env)
	if x.fnc != nil && x.fnc.Theory {
		// the ghost state must exist before the call so that what the call preserves can be said
		x.heapSym(s, "ghost:k", SArray(SInt, SInt))
		x.heapSym(s, "ghost:epoch", SArray(SInt, SInt))
		x.heapSym(s, "ghost:ctxp", SArray(SInt, SPos))
		x.heapSym(s, "ghost:xh", SArray(SInt, SBool))
		x.heapSym(s, "navpos", SArray(SInt, SPos))
	}
	// snapshot for old()
	pre := make(map[string]T, len(s.heap))
	for k, v := range s.heap {
		pre[k] = v
	}
	// frame
	if !fc.HasMod {
		x.havocAll(s, func(k string) bool { return keyMatches(fc.Preserves, k) })
		if len(fc.Preserves) > 0 && callee == nil {
			x.assumed["frame of "+fc.Key+" (assumed at call sites): preserves "+strings.Join(fc.Preserves, ", ")] = true
		}
		if fc.TreeFrame {
			x.preserveRootReceiver(s, pre)
		}
	} else {
		x.havocKey(s, "alloc")
		for _, m := range fc.Modifies {
			x.havocEntry(s, env, m)
		}
	}
	// results
	var res Val
	rt := sig.Results()
	res = x.resultVal(s, in, rt)
	names := fc.Results
	if callee != nil {
		names = nil
		for i := 0; i < rt.Len(); i++ {
			names = append(names, rt.At(i).Name())
		}
	}
	if rt.Len() == 1 {
		bind("result", res, rt.At(0).Type())
		if len(names) == 1 {
			bind(names[0], res, rt.At(0).Type())
		}
	} else if rt.Len() > 1 {
		for i := 0; i < rt.Len(); i++ {
			bind(fmt.Sprintf("result%d", i), res.Parts[i], rt.At(i).Type())
			if i < len(names) {
				bind(names[i], res.Parts[i], rt.At(i).Type())
			}
		}
	}
	env.oldHeap = pre
	// The ghost stream machinery (history variables, stream definitions, operand disjointness) is
	// only switched on for functions whose contract asks for it (`theory ...`): the safety sweep of
	// the other functions does not need it and stays small.
	streams := x.fnc != nil && x.fnc.Theory
	if streams {
		x.keepOwnNavigators(s, pre, args, recv, fc.KeepsCursor)
	}
	// ghost history variables: updated by the call rule itself
	for _, cl := range fc.clauses("ghost") {
		if streams || strings.HasPrefix(cl.Name, "buf(") || strings.HasPrefix(cl.Name, "ixh(") {
			x.applyGhost(s, in, env, cl, pre, recv)
		}
	}
	x.applyGhostSets(s, fc, env)
	if streams && fc.DisjointOperands && recv != nil {
		x.preserveOtherGhosts(s, pre, recv.v.T)
		if res.K == vScalar && res.T.Sort == SIface && strings.HasSuffix(fc.Key, ".Select") {
			s.navOwner[res.T.S] = recv.v.T.S
		}
	}
	for _, cl := range append(fc.clauses("ensures"), fc.clauses("ensures-assumed")...) {
		if cl.Kind == "ensures-assumed" && !streams && streamLabels[cl.Label] {
			continue
		}
		if ps, excl := cl.exclusive(); excl && !hasProp(ps, x.prop) {
			continue
		}
		if cl.localOnly() {
			continue
		}
		t, err := env.evalBool(cl.Expr)
		if err != nil {
			if callee != nil && strings.Contains(err.Error(), "unknown n") {
				continue // a clause about the callee's locals says nothing to the caller
			}
			x.unsupported("ensures of %s: %v", fc.Key, err)
			continue
		}
		s.assume(t)
		if cl.Kind == "ensures-assumed" {
			x.assumed["assumed clause of "+fc.Key+": "+cl.Expr] = true
		}
	}
	if fc.Trusted {
		x.assumed["trusted contract: "+fc.Key] = true
	}
	// a method called directly still owes what its interface promises (proved: refines)
	if callee != nil && callee.Signature.Recv() != nil {
		rt0 := callee.Signature.Recv().Type()
		for key, ic := range x.p.Ctr.Ifaces {
			i := strings.LastIndex(key, ".")
			if key[i+1:] != callee.Name() {
				continue
			}
			it := x.p.lookupType(key[:i])
			if it == nil || !types.Implements(rt0, it.Underlying().(*types.Interface)) {
				continue
			}
			env2 := &specEnv{x: x, s: s, where: "contract " + ic.Key, vars: map[string]sval{}, oldHeap: pre}
			env2.vars["self"] = sval{v: scalar(x.box(s, args[0], rt0)), typ: it}
			for j, pn := range ic.Params {
				if j+1 < len(args) && pn != "" && pn != "_" {
					env2.vars[pn] = sval{v: args[j+1], typ: callee.Params[j+1].Type()}
				}
			}
			if rt.Len() == 1 {
				env2.vars["result"] = sval{v: res, typ: rt.At(0).Type()}
			}
			for _, cl := range ic.clauses("ensures") {
				if ps, excl := cl.exclusive(); excl && !hasProp(ps, x.prop) {
					continue
				}
				if t, err := env2.evalBool(cl.Expr); err == nil {
					s.assume(t)
				}
			}
		}
	}
	return res
}

// callFrameCheck: a function with a frame (`modifies` / `preserves`) may only call functions whose
// frame fits into its own.
func (x *Exec) callFrameCheck(s *State, in *ssa.Call, callee *FuncContract, env *specEnv) {
	me := x.fnc
	if me == nil || len(s.frames) != 1 || (!me.HasMod && len(me.Preserves) == 0) {
		return
	}
	site := x.label(in)
	if callee == nil || (!callee.HasMod && len(callee.Preserves) == 0 && !callee.TreeFrame) {
		x.oblige(s, "frame", "call:"+site, TFalse, in.Pos(), nil)
		return
	}
	if me.HasMod {
		if !callee.HasMod {
			x.oblige(s, "frame", "call:"+site, TFalse, in.Pos(), nil)
			return
		}
		for _, m := range callee.Modifies {
			ok := false
			if strings.HasPrefix(m, "heap(") {
				k := strings.TrimSuffix(strings.TrimPrefix(m, "heap("), ")")
				for _, mine := range me.Modifies {
					if strings.HasPrefix(mine, "heap(") {
						mk_ := strings.TrimSuffix(strings.TrimPrefix(mine, "heap("), ")")
						if mk_ == k || keyMatches([]string{mk_}, k) {
							ok = true
						}
					}
				}
				x.oblige(s, "frame", "call:"+site+":"+m, Bool(ok), in.Pos(), nil)
				continue
			}
			// x.f of the callee: the object must be fresh or covered by one of my entries
			i := strings.LastIndex(m, ".")
			if i < 0 || env == nil {
				x.oblige(s, "frame", "call:"+site+":"+m, TFalse, in.Pos(), nil)
				continue
			}
			v, err := env.evalVal(m[:i])
			if err != nil || v.v.K != vScalar {
				x.oblige(s, "frame", "call:"+site+":"+m, TFalse, in.Pos(), nil)
				continue
			}
			ref := v.v.T
			if ref.Sort == SIface {
				ref = mk(SInt, "iptr", ref)
			}
			alts := []T{x.freshTerm(s, ref)}
			for _, mine := range me.Modifies {
				if strings.HasPrefix(mine, "heap(") {
					pk := strings.TrimSuffix(strings.TrimPrefix(mine, "heap("), ")")
					if strings.HasSuffix(pk, "."+m[i+1:]) || strings.HasSuffix(pk, ".*") {
						alts = append(alts, TTrue)
					}
				}
				e2 := x.specEnvFor(s, "modifies")
				e2.old = true
				if t, ok2 := e2.modifiesAllows(mine, ref, "."+m[i+1:]); ok2 {
					alts = append(alts, t)
				}
			}
			x.oblige(s, "frame", "call:"+site+":"+m, Or(alts...), in.Pos(), nil)
		}
		return
	}
	// I only promise to preserve some heaps: the callee must preserve them too (or not be able to write them)
	if callee.HasMod {
		for _, m := range callee.Modifies {
			if strings.HasPrefix(m, "heap(") {
				k := strings.TrimSuffix(strings.TrimPrefix(m, "heap("), ")")
				x.oblige(s, "frame", "call:"+site+":"+m, Bool(!patternsOverlap(me.Preserves, k)), in.Pos(), nil)
			} else if i := strings.LastIndex(m, "."); i > 0 {
				// field of some object: only a problem if that field heap is one I preserve
				bad := fieldMayMatch(me.Preserves, m[i+1:])
				if env != nil {
					if v, err := env.evalVal(m[:i]); err == nil && v.typ != nil {
						if pt, ok := v.typ.Underlying().(*types.Pointer); ok {
							bad = keyMatches(me.Preserves, "F:"+typeStr(pt.Elem())+"."+m[i+1:])
							if m[i+1:] == "*" {
								bad = patternsOverlap(me.Preserves, "F:"+typeStr(pt.Elem())+".*")
							}
						}
					}
				}
				x.oblige(s, "frame", "call:"+site+":"+m, Bool(!bad), in.Pos(), nil)
			}
		}
		return
	}
	for _, pat := range me.Preserves {
		ok := false
		for _, cp := range callee.Preserves {
			if cp == pat {
				ok = true
			}
		}
		x.oblige(s, "frame", "call:"+site+":preserves "+pat, Bool(ok), in.Pos(), nil)
	}
}

func patternsOverlap(pats []string, k string) bool {
	for _, p := range pats {
		if keyMatches([]string{p}, k) || keyMatches([]string{k}, p) {
			return true
		}
	}
	return false
}

func fieldMayMatch(pats []string, fld string) bool {
	for _, p := range pats {
		if strings.HasSuffix(p, ".*") || strings.HasSuffix(p, "."+fld) {
			return true
		}
	}
	return false
}

// keepOwnNavigators: navigators this function copied for itself and did not hand to the callee stay
// where they are; with keepsCursor (assumed for iterator closures: they move only navigators they
// created) the context cursor of every iterator in scope stays put as well.
func (x *Exec) keepOwnNavigators(s *State, pre map[string]T, args []Val, recv *sval, keepsCursor bool) {
	old, ok1 := pre["navpos"]
	cur, ok2 := s.heap["navpos"]
	if !ok1 || !ok2 || old.S == cur.S {
		return
	}
	passed := func(t T) bool {
		for _, a := range args {
			if a.K == vScalar && strings.Contains(a.T.S, t.S) {
				return true
			}
		}
		if recv != nil && strings.Contains(recv.v.T.S, t.S) {
			return true
		}
		return false
	}
	for _, nv := range s.navCopies {
		if passed(nv) {
			continue
		}
		r := mk(SInt, "iptr", nv)
		s.assume(Eq(Select(cur, r, SPos), Select(old, r, SPos)))
	}
	if x.fnc != nil && len(s.frames) == 1 {
		for _, name := range x.fnc.OwnsNavs {
			env := x.specEnvFor(s, "owns-navigators")
			env.oldHeap = pre
			f := fmt.Sprintf("forall(i, int, 0 <= i && i < len(%s) ==> %s[i] == old(%s[i]) && pos(%s[i]) == old(pos(%s[i])))", name, name, name, name, name)
			if t, err := env.evalBool(f); err == nil {
				s.assume(t)
				x.assumed["ownership: the list "+name+" this function builds is not written, and the navigators collected in it are not moved, by the functions it calls"] = true
			}
		}
	}
	if keepsCursor && len(s.frames) > 0 {
		x.assumed["iterator closures move only navigators they created (never the caller's context cursor)"] = true
		fr := s.frames[0]
		for i, p := range fr.fn.Params {
			if typeStr(p.Type()) != "iterator" {
				continue
			}
			env := &specEnv{x: x, s: s, where: "keeps-cursor", vars: map[string]sval{"t": {v: fr.args[i], typ: p.Type()}}}
			env.oldHeap = pre
			nowv, err1 := env.evalVal("pos(cur(t))")
			oldv, err2 := env.evalVal("old(pos(cur(t)))")
			if err1 == nil && err2 == nil {
				s.assume(Eq(nowv.v.T, oldv.v.T))
			}
		}
	}
}

// assumed clauses that only make sense with the ghost stream machinery switched on
var streamLabels = map[string]bool{"stream-def": true, "eval-def": true, "query-value": true, "restart-deterministic": true}

// applyGhost performs `ghost NAME(self) = expr`.
func (x *Exec) applyGhost(s *State, in *ssa.Call, env *specEnv, cl *Clause, pre map[string]T, recv *sval) {
	i := strings.Index(cl.Name, "(")
	if i < 0 || recv == nil {
		x.unsupported("ghost clause %q", cl.Name)
		return
	}
	gname := strings.TrimSpace(cl.Name[:i])
	v, err := env.evalVal(cl.Expr)
	if err != nil {
		x.unsupported("ghost %s: %v", cl.Name, err)
		return
	}
	val := v.v.T
	if v.lit != nil {
		val = T{v.lit.String(), SInt}
	}
	ref := recv.v.T
	if strings.Contains(cl.Name, "(fnself)") {
		if fs, ok := env.vars["fnself"]; ok {
			ref = fs.v.T
		}
	}
	if ref.Sort == SIface {
		ref = mk(SInt, "iptr", ref)
	}
	if gname == "buf" {
		x.sharedBuilderCheck(s, in, ref)
	}
	key := "ghost:" + gname
	base, ok := pre[key]
	if !ok {
		base = x.heapSym(s, key, SArray(SInt, val.Sort))
	}
	// only the receiver's entry changes w.r.t. the pre-state here; entries of its sub-queries are
	// forgotten by the havoc that preceded (the array was replaced), so re-anchor on the havocked array
	cur := x.heapSym(s, key, SArray(SInt, val.Sort))
	_ = base
	if recv.v.T.Sort == SIface {
		// a non-pointer value (bool, number, string) has no ghost entry
		val = Ite(mk(SBool, "(_ is iref)", recv.v.T), val, Select(cur, ref, val.Sort))
	}
	x.heapSet(s, key, Store(cur, ref, val))
	x.needTheory = true
}

// preserveOtherGhosts: ghost counters of the other query values in scope survive a call on recv
// (assumption: distinct query values in one scope are disjoint trees).
func (x *Exec) preserveOtherGhosts(s *State, pre map[string]T, recv T) {
	x.assumed["ownership: distinct query values in one scope are disjoint trees (their streams advance independently)"] = true
	fr := s.top()
	seen := map[string]bool{recv.S: true}
	var others []T
	for _, v := range fr.env {
		if v.K == vScalar && v.T.Sort == SIface && !seen[v.T.S] {
			seen[v.T.S] = true
			others = append(others, v.T)
		}
	}
	// so are the query values a closure captured
	if len(s.frames) > 0 {
		rf := s.frames[0]
		for _, fv := range rf.fn.FreeVars {
			et := fv.Type().(*types.Pointer).Elem()
			if x.sortOf(et) != SIface || isSlice(et) {
				continue
			}
			cell, ok := rf.env[fv]
			if !ok || cell.K != vScalar {
				continue
			}
			key := cellKey(et)
			if cell.Key != "" {
				key = cell.Key
			}
			arr, ok := pre[key]
			if !ok {
				arr = x.heapSym(s, key, SArray(SInt, SIface))
			}
			cv := Select(arr, cell.T, SIface)
			if !seen[cv.S] {
				seen[cv.S] = true
				others = append(others, cv)
			}
		}
	}
	// query-valued fields of the receiver of the method under verification are operands too
	if rc := x.root.Signature.Recv(); rc != nil && len(s.frames) > 0 {
		if pt, ok := rc.Type().Underlying().(*types.Pointer); ok {
			if st, ok := pt.Elem().Underlying().(*types.Struct); ok {
				self := s.frames[0].args[0].T
				for i := 0; i < st.NumFields(); i++ {
					key, ft := fieldKey(pt.Elem(), i)
					if x.sortOf(ft) != SIface || isSlice(ft) {
						continue
					}
					arr := x.heapSym(s, key, SArray(SInt, SIface))
					if o0, was := pre[key]; was {
						arr = o0
					}
					fv := Select(arr, self, SIface)
					if !seen[fv.S] {
						seen[fv.S] = true
						others = append(others, fv)
					}
				}
			}
		}
	}
	sort.Slice(others, func(i, j int) bool { return others[i].S < others[j].S })
	// navigators handed out by other queries are not moved by this one
	if old, ok1 := pre["navpos"]; ok1 {
		if cur, ok2 := s.heap["navpos"]; ok2 && old.S != cur.S {
			var navs []string
			for nv, owner := range s.navOwner {
				if owner != recv.S {
					navs = append(navs, nv)
				}
			}
			sort.Strings(navs)
			for _, nv := range navs {
				r := mk(SInt, "iptr", T{nv, SIface})
				s.assume(Eq(Select(cur, r, SPos), Select(old, r, SPos)))
			}
		}
	}
	for _, g := range []string{"ghost:k", "ghost:epoch", "ghost:ctxp", "ghost:xh"} {
		old, ok1 := pre[g]
		cur, ok2 := s.heap[g]
		if !ok1 || !ok2 || old.S == cur.S {
			continue
		}
		es := SInt
		if g == "ghost:ctxp" {
			es = SPos
		}
		if g == "ghost:xh" {
			es = SBool
		}
		for _, o := range others {
			ro, rr := mk(SInt, "iptr", o), mk(SInt, "iptr", recv)
			s.assume(Implies(And(mk(SBool, "(_ is iref)", o), Or(Not(mk(SBool, "(_ is iref)", recv)), Not(Eq(ro, rr)))), Eq(Select(cur, ro, es), Select(old, ro, es))))
		}
	}
}

// preserveRootReceiver: assumed ownership discipline — a sub-query never writes the query object
// that owns it, so the fields of the receiver of the method under verification survive the call.
func (x *Exec) preserveRootReceiver(s *State, pre map[string]T) {
	x.assumed["ownership: sub-queries do not write the query object that owns them nor re-enter its iterator closures (tree-frame)"] = true
	// cells of this activation (and of the enclosing functions of a closure) are not written by the callee
	var owners []string
	for f := x.root; f != nil; f = f.Parent() {
		owners = append(owners, "C@"+x.p.Names[f]+".")
	}
	for k, old := range pre {
		for _, o := range owners {
			if strings.HasPrefix(k, o) {
				if cur, ok := s.heap[k]; ok && cur.S != old.S {
					s.assume(Eq(cur, old))
				}
			}
		}
	}
	recv := x.root.Signature.Recv()
	if recv == nil || len(s.frames) == 0 {
		return
	}
	pt, ok := recv.Type().Underlying().(*types.Pointer)
	if !ok {
		return
	}
	st, ok := pt.Elem().Underlying().(*types.Struct)
	if !ok {
		return
	}
	self := s.frames[0].args[0].T
	for i := 0; i < st.NumFields(); i++ {
		key, ft := fieldKey(pt.Elem(), i)
		for _, e := range x.elemSorts(ft) {
			k := key + e.suf
			old, ok := pre[k]
			if !ok {
				continue
			}
			cur := s.heap[k]
			s.assume(Eq(Select(cur, self, e.sort), Select(old, self, e.sort)))
		}
	}
}

// havocEntry forgets one `modifies` entry.
func (x *Exec) havocEntry(s *State, env *specEnv, m string) {
	m = strings.TrimSpace(m)
	if strings.HasPrefix(m, "heap(") {
		x.havocPrefix(s, strings.TrimSuffix(strings.TrimPrefix(m, "heap("), ")"))
		return
	}
	i := strings.LastIndex(m, ".")
	if i < 0 {
		x.unsupported("modifies entry %q", m)
		return
	}
	obj, fld := m[:i], m[i+1:]
	v, err := env.evalVal(obj)
	if err != nil || v.typ == nil {
		x.unsupported("modifies entry %q: %v", m, err)
		return
	}
	ref := v.v.T
	t := v.typ
	if ref.Sort == SIface {
		// all package types that can be inside: havoc that field name on each
		for _, ct := range x.p.concrete {
			pt, ok := ct.(*types.Pointer)
			if !ok {
				continue
			}
			x.havocFields(s, mk(SInt, "iptr", ref), pt.Elem(), fld)
		}
		return
	}
	pt, ok := t.Underlying().(*types.Pointer)
	if !ok {
		x.unsupported("modifies entry %q: not a pointer", m)
		return
	}
	x.havocFields(s, ref, pt.Elem(), fld)
}

func (x *Exec) havocFields(s *State, ref T, st types.Type, fld string) {
	str, ok := st.Underlying().(*types.Struct)
	if !ok {
		return
	}
	for i := 0; i < str.NumFields(); i++ {
		if fld != "*" && str.Field(i).Name() != fld {
			continue
		}
		key, ft := fieldKey(st, i)
		if _, nested := ft.Underlying().(*types.Struct); nested {
			continue
		}
		for _, e := range x.elemSorts(ft) {
			k := key + e.suf
			arr := x.heapSym(s, k, SArray(SInt, e.sort))
			nv := x.fresh(s, "hv", e.sort)
			x.heapSet(s, k, Store(arr, ref, nv))
		}
	}
}

// ---------------------------------------------------------------- interface methods

func (x *Exec) invoke(s *State, in *ssa.Call, recv Val, args []Val) Val {
	c := in.Common()
	it := c.Value.Type()
	name := typeStr(it) + "." + c.Method.Name()
	sig := c.Method.Type().(*types.Signature)
	if typeStr(it) == "NodeNavigator" {
		return x.navCall(s, in, recv, args, c.Method.Name())
	}
	if fc := x.p.Ctr.Ifaces[name]; fc != nil {
		rv := sval{v: recv, typ: it}
		return x.applyContract(s, in, fc, nil, args, &rv, sig)
	}
	// getters on package types: dispatch over the implementing types
	if v, ok := x.getterDispatch(s, in, recv, c.Method); ok {
		return v
	}
	switch name {
	case "error.Error":
		return x.freshVal(s, "errstr", types.Typ[types.String])
	case "iterator.Current":
		r := x.freshVal(s, "cur", sig.Results().At(0).Type())
		return r
	}
	x.assumed["interface call without contract havocs the heap: "+name] = true
	x.callFrameCheck(s, in, nil, nil)
	x.havocAll(s, nil)
	return x.resultVal(s, in, sig.Results())
}

// getterDispatch handles interface methods whose package implementations all just return a field.
func (x *Exec) getterDispatch(s *State, in *ssa.Call, recv Val, m *types.Func) (Val, bool) {
	it := in.Common().Value.Type().Underlying().(*types.Interface)
	res := m.Type().(*types.Signature).Results()
	if res.Len() != 1 {
		return Val{}, false
	}
	type impl struct {
		t   types.Type
		key string
		ft  types.Type
	}
	var impls []impl
	for _, ct := range x.p.concrete {
		if !types.Implements(ct, it) {
			continue
		}
		f := x.p.Prog.LookupMethod(ct, m.Pkg(), m.Name())
		if f == nil {
			return Val{}, false
		}
		key, ft, ok := getterField(f)
		if !ok {
			return Val{}, false
		}
		impls = append(impls, impl{ct, key, ft})
	}
	if len(impls) == 0 {
		return Val{}, false
	}
	r := x.freshVal(s, "get."+m.Name(), res.At(0).Type())
	for _, im := range impls {
		ref := mk(SInt, "iptr", recv.T)
		v := x.loadAt(s, im.key, ref, im.ft, false)
		if v.K == vScalar && r.K == vScalar {
			s.assume(Implies(x.isType(recv.T, im.t), Eq(r.T, v.T)))
		}
	}
	return r, true
}

// getterField recognises `func (r *T) m() X { return r.f }`.
func getterField(f *ssa.Function) (string, types.Type, bool) {
	if len(f.Blocks) != 1 || len(f.Params) != 1 {
		return "", nil, false
	}
	var fa *ssa.FieldAddr
	var ld *ssa.UnOp
	for _, in := range f.Blocks[0].Instrs {
		switch in := in.(type) {
		case *ssa.DebugRef:
		case *ssa.FieldAddr:
			if in.X != f.Params[0] || fa != nil {
				return "", nil, false
			}
			fa = in
		case *ssa.UnOp:
			if fa == nil || in.X != fa {
				return "", nil, false
			}
			ld = in
		case *ssa.Return:
			if ld == nil || len(in.Results) != 1 || in.Results[0] != ld {
				return "", nil, false
			}
			k, ft := fieldKey(fa.X.Type().Underlying().(*types.Pointer).Elem(), fa.Field)
			return k, ft, true
		default:
			return "", nil, false
		}
	}
	return "", nil, false
}

// ---------------------------------------------------------------- function values

func (x *Exec) callFuncValue(s *State, in *ssa.Call, fexpr ssa.Value, fv Val, args []Val) Val {
	sig := fexpr.Type().Underlying().(*types.Signature)
	if fk := fieldOfValue(fexpr); fk != "" {
		fc := x.p.Ctr.Fields[fk]
		if fc == nil {
			fc = x.p.Ctr.Fields["*"+fk[strings.Index(fk, "."):]]
		}
		if fc != nil {
			var rv *sval
			if u, ok := fexpr.(*ssa.UnOp); ok {
				if fa, ok := u.X.(*ssa.FieldAddr); ok {
					base := x.valueOf(s, fa.X)
					rv = &sval{v: base, typ: fa.X.Type()}
				}
			}
			x.callFnSelf = fv
			r := x.applyContract(s, in, fc, nil, args, rv, sig)
			x.callFnSelf = Val{}
			return r
		}
	}
	// contracts keyed by the function type name (e.g. "logical") or parameter name
	if n, ok := fexpr.Type().(*types.Named); ok {
		if fc := x.p.Ctr.Fields["type "+n.Obj().Name()]; fc != nil {
			return x.applyContract(s, in, fc, nil, args, &sval{v: fv, typ: fexpr.Type()}, sig)
		}
	}
	if cl, ok := fexpr.(*ssa.Call); ok {
		if sc := cl.Call.StaticCallee(); sc != nil {
			if fc := x.p.Ctr.Fields["result "+x.p.Names[sc]]; fc != nil {
				// self is the function value that was returned
				return x.applyContract(s, in, fc, nil, args, &sval{v: fv, typ: fexpr.Type()}, sig)
			}
		}
	}
	if p, ok := fexpr.(*ssa.Parameter); ok {
		if fc := x.p.Ctr.Fields[x.p.Names[p.Parent()]+"."+p.Name()]; fc != nil {
			res := x.applyContract(s, in, fc, nil, args, nil, sig)
			x.dispatchConformers(s, x.p.Names[p.Parent()]+"."+p.Name(), fv, args, res, sig)
			return res
		}
	}
	if u, ok := fexpr.(*ssa.UnOp); ok {
		if ia, ok := u.X.(*ssa.IndexAddr); ok {
			if p, ok := ia.X.(*ssa.Parameter); ok {
				if fc := x.p.Ctr.Fields[x.p.Names[p.Parent()]+"."+p.Name()+"[]"]; fc != nil {
					return x.applyContract(s, in, fc, nil, args, nil, sig)
				}
			}
		}
	}
	x.assumed["call of a function value without contract havocs the heap: "+x.p.Names[in.Parent()]+" "+valueDesc(fexpr)] = true
	x.callFrameCheck(s, in, nil, nil)
	x.havocAll(s, nil)
	return x.resultVal(s, in, sig.Results())
}

// dispatchConformers: what a function value does beyond the contract of the slot it sits in is known
// when the value is one of the functions declared to conform to that slot: for every side-effect free
// conformer g without captured variables, fnid(value) == g implies g's own (proved) postconditions.
func (x *Exec) dispatchConformers(s *State, key string, fv Val, args []Val, res Val, sig *types.Signature) {
	if fv.K != vScalar {
		return
	}
	var names []string
	for n, g := range x.p.Ctr.Funcs {
		if g.Conforms == key && g.HasMod && len(g.Modifies) == 0 {
			names = append(names, n)
		}
	}
	sort.Strings(names)
	for _, n := range names {
		g := x.p.Ctr.Funcs[n]
		f := x.p.Funcs[n]
		if f == nil || len(f.FreeVars) > 0 || len(f.Params) != len(args) {
			continue
		}
		env := &specEnv{x: x, s: s, where: "conformer " + n, vars: map[string]sval{}}
		env.oldHeap = map[string]T{}
		for k, v := range s.heap {
			env.oldHeap[k] = v
		}
		for i, p := range f.Params {
			env.vars[p.Name()] = sval{v: args[i], typ: p.Type()}
		}
		if sig.Results().Len() == 1 {
			env.vars["result"] = sval{v: res, typ: sig.Results().At(0).Type()}
		}
		guard := Eq(mk(SInt, "fnid", fv.T), IntLit(int64(x.p.fnID(f))))
		for _, cl := range g.clauses("ensures") {
			if t, err := env.evalBool(cl.Expr); err == nil {
				s.assume(Implies(guard, t))
			} else {
				x.unsupported("ensures of conformer %s: %v", n, err)
			}
		}
	}
}

// ---------------------------------------------------------------- Program helpers

func (p *Program) fnID(f *ssa.Function) int {
	if p.fnIDs == nil {
		p.fnIDs = map[*ssa.Function]int{}
		for i, n := range p.Order {
			p.fnIDs[p.Funcs[n]] = i + 1
		}
	}
	if id, ok := p.fnIDs[f]; ok {
		return id
	}
	id := len(p.fnIDs) + 1000
	p.fnIDs[f] = id
	return id
}

// implFacts: which package types implement which interfaces (closed world for package types).
func (p *Program) implFacts() string {
	var sb strings.Builder
	var ifs []string
	for n := range p.ifaceID {
		ifs = append(ifs, n)
	}
	sort.Strings(ifs)
	for _, n := range ifs {
		id := p.ifaceID[n]
		it := p.ifaceTypes[n]
		if it == nil {
			continue
		}
		for _, ct := range p.concrete {
			ok := types.Implements(ct, it.Underlying().(*types.Interface))
			sb.WriteString(fmt.Sprintf("(assert (= (impl %d %d) %v))\n", p.tag(ct), id, ok))
		}
		sb.WriteString(fmt.Sprintf("(assert (not (impl 0 %d)))\n", id))
	}
	return sb.String()
}

// applyGhostSets performs the `ghostset x.f = expr` clauses of a contract: in the function's own
// verification where it returns (before its ensures clauses are checked), at call sites after the
// frame has been havocked.
func (x *Exec) applyGhostSets(s *State, fc *FuncContract, env *specEnv) {
	for _, cl := range fc.clauses("ghostset") {
		ex, err := parser.ParseExpr(cl.Name)
		sel, ok := ex.(*ast.SelectorExpr)
		if err != nil || !ok {
			x.unsupported("ghostset %s: target must be x.f", cl.Name)
			continue
		}
		obj, err := env.eval(sel.X)
		if err != nil || obj.typ == nil {
			x.unsupported("ghostset %s: %v", cl.Name, err)
			continue
		}
		pt, ok := obj.typ.Underlying().(*types.Pointer)
		if !ok || !x.p.Ctr.GhostFields[typeStr(pt.Elem())+"."+sel.Sel.Name] {
			x.unsupported("ghostset %s: not a declared ghost field", cl.Name)
			continue
		}
		v, err := env.evalInt(cl.Expr)
		if err != nil {
			x.unsupported("ghostset %s: %v", cl.Name, err)
			continue
		}
		key := "F:" + typeStr(pt.Elem()) + "." + sel.Sel.Name
		cur := x.heapSym(s, key, SArray(SInt, x.intSort()))
		x.heapSet(s, key, Store(cur, obj.v.T, v))
	}
}
