package main

import (
	"go/constant"
	"fmt"
	"go/token"
	"go/types"

	"golang.org/x/tools/go/ssa"
)

func (x *Exec) binop(s *State, in *ssa.BinOp) {
	fr := s.top()
	a, b := x.valueOf(s, in.X), x.valueOf(s, in.Y)
	t := in.X.Type()
	var r T
	switch {
	case in.Op == token.EQL || in.Op == token.NEQ:
		r = x.equal(s, a, b, t, in.Y.Type())
		if in.Op == token.NEQ {
			r = Not(r)
		}
	case isFloat(t):
		r = x.floatOp(in.Op, a.T, b.T)
	case isString(t):
		switch in.Op {
		case token.ADD:
			r = x.strCat(s, a.T, b.T)
		case token.LSS:
			r = mk(SBool, "str.lt_", a.T, b.T)
		case token.GTR:
			r = mk(SBool, "str.lt_", b.T, a.T)
		case token.LEQ:
			r = Not(mk(SBool, "str.lt_", b.T, a.T))
		case token.GEQ:
			r = Not(mk(SBool, "str.lt_", a.T, b.T))
		}
	case isInt(t):
		r = x.intOp(s, in, a.T, b.T, t)
	case isBool(t):
		switch in.Op {
		case token.AND, token.LAND:
			r = And(a.T, b.T)
		case token.OR, token.LOR:
			r = Or(a.T, b.T)
		}
	}
	if r.S == "" {
		x.unsupported("%s: binop %s on %s", x.p.Names[fr.fn], in.Op, t)
		fr.env[in] = x.freshVal(s, "binop", in.Type())
		return
	}
	fr.env[in] = scalar(x.define(s, in.Name(), r))
}

func (x *Exec) equal(s *State, a, b Val, ta, tb types.Type) T {
	if a.K == vSlice || b.K == vSlice {
		// only comparison with nil is legal
		if a.K == vSlice {
			return Eq(a.Arr, IntLit(0))
		}
		return Eq(b.Arr, IntLit(0))
	}
	if a.K != vScalar || b.K != vScalar {
		x.unsupported("comparison of composite values")
		return x.fresh(s, "eq", SBool)
	}
	if isFloat(ta) {
		return mk(SBool, "fp.eq", a.T, b.T)
	}
	if a.T.Sort != b.T.Sort {
		// interface vs concrete: box the concrete side
		if a.T.Sort == SIface {
			return Eq(a.T, x.box(s, b, tb))
		}
		if b.T.Sort == SIface {
			return Eq(x.box(s, a, ta), b.T)
		}
		x.unsupported("comparison across sorts %s %s", a.T.Sort, b.T.Sort)
		return x.fresh(s, "eq", SBool)
	}
	return Eq(a.T, b.T)
}

func (x *Exec) floatOp(op token.Token, a, b T) T {
	switch op {
	case token.ADD:
		return mk(SFloat, "fp.add RNE", a, b)
	case token.SUB:
		return mk(SFloat, "fp.sub RNE", a, b)
	case token.MUL:
		return mk(SFloat, "fp.mul RNE", a, b)
	case token.QUO:
		return mk(SFloat, "fp.div RNE", a, b)
	case token.LSS:
		return mk(SBool, "fp.lt", a, b)
	case token.LEQ:
		return mk(SBool, "fp.leq", a, b)
	case token.GTR:
		return mk(SBool, "fp.gt", a, b)
	case token.GEQ:
		return mk(SBool, "fp.geq", a, b)
	}
	return T{}
}

func (x *Exec) strCat(s *State, a, b T) T {
	r := x.define(s, "cat", mk(SStr, "str.cat_", a, b))
	s.assume(Eq(x.strLenRaw(r), x.add(x.strLen(s, a), x.strLen(s, b))))
	s.assume(Implies(Eq(b, T{"str.empty", SStr}), Eq(r, a)))
	s.assume(Implies(Eq(a, T{"str.empty", SStr}), Eq(r, b)))
	return r
}

func (x *Exec) intOp(s *State, in *ssa.BinOp, a, b T, t types.Type) T {
	uns := isUnsigned(t)
	if a.Sort == SInt {
		var r T
		switch in.Op {
		case token.ADD:
			r = mk(SInt, "+", a, b)
		case token.SUB:
			r = mk(SInt, "-", a, b)
		case token.MUL:
			r = mk(SInt, "*", a, b)
		case token.QUO, token.REM:
			if x.sweep {
				x.oblige(s, "int-div-zero", x.label(in), Not(Eq(b, IntLit(0))), in.Pos(), nil)
			}
			s.assume(Not(Eq(b, IntLit(0))))
			// Go truncates toward zero
			q := Ite(mk(SBool, ">=", a, IntLit(0)), mk(SInt, "div", a, mk(SInt, "abs", b)), mk(SInt, "-", mk(SInt, "div", mk(SInt, "-", a), mk(SInt, "abs", b))))
			q = Ite(mk(SBool, ">=", b, IntLit(0)), q, mk(SInt, "-", q))
			if in.Op == token.QUO {
				return q
			}
			return mk(SInt, "-", a, mk(SInt, "*", b, q))
		case token.LSS:
			return mk(SBool, "<", a, b)
		case token.LEQ:
			return mk(SBool, "<=", a, b)
		case token.GTR:
			return mk(SBool, ">", a, b)
		case token.GEQ:
			return mk(SBool, ">=", a, b)
		default:
			return T{}
		}
		// machine arithmetic is not mathematical: the result must fit
		lo, hi := intRange(t)
		fit := mk(SBool, "and", mk(SBool, "<=", T{lo, SInt}, r), mk(SBool, "<=", r, T{hi, SInt}))
		x.oblige(s, "no-overflow", x.label(in), fit, in.Pos(), nil)
		s.assume(fit)
		return r
	}
	so := a.Sort
	if b.Sort != so { // shifts may have differently sized counts
		b = x.convInt(b, in.Y.Type(), t)
	}
	switch in.Op {
	case token.ADD:
		return mk(so, "bvadd", a, b)
	case token.SUB:
		return mk(so, "bvsub", a, b)
	case token.MUL:
		return mk(so, "bvmul", a, b)
	case token.QUO, token.REM:
		if x.sweep {
			x.oblige(s, "int-div-zero", x.label(in), Not(Eq(b, BVLit(0, sortBits(so)))), in.Pos(), nil)
		}
		s.assume(Not(Eq(b, BVLit(0, sortBits(so)))))
		op := map[bool]map[token.Token]string{true: {token.QUO: "bvudiv", token.REM: "bvurem"}, false: {token.QUO: "bvsdiv", token.REM: "bvsrem"}}[uns][in.Op]
		return mk(so, op, a, b)
	case token.AND:
		return mk(so, "bvand", a, b)
	case token.OR:
		return mk(so, "bvor", a, b)
	case token.XOR:
		return mk(so, "bvxor", a, b)
	case token.AND_NOT:
		return mk(so, "bvand", a, mk(so, "bvnot", b))
	case token.SHL:
		return mk(so, "bvshl", a, b)
	case token.SHR:
		if uns {
			return mk(so, "bvlshr", a, b)
		}
		return mk(so, "bvashr", a, b)
	case token.LSS:
		if uns {
			return mk(SBool, "bvult", a, b)
		}
		return mk(SBool, "bvslt", a, b)
	case token.LEQ:
		if uns {
			return mk(SBool, "bvule", a, b)
		}
		return mk(SBool, "bvsle", a, b)
	case token.GTR:
		if uns {
			return mk(SBool, "bvugt", a, b)
		}
		return mk(SBool, "bvsgt", a, b)
	case token.GEQ:
		if uns {
			return mk(SBool, "bvuge", a, b)
		}
		return mk(SBool, "bvsge", a, b)
	}
	return T{}
}

func (x *Exec) convert(s *State, in *ssa.Convert) {
	fr := s.top()
	v := x.valueOf(s, in.X)
	from, to := in.X.Type(), in.Type()
	switch {
	case isInt(from) && isInt(to):
		fr.env[in] = scalar(x.convInt(v.T, from, to))
	case isInt(from) && isFloat(to):
		fr.env[in] = scalar(x.define(s, in.Name(), x.intToFloat(v.T, from)))
	case isFloat(from) && isInt(to):
		fr.env[in] = scalar(x.floatToInt(s, v.T, to))
	case isFloat(from) && isFloat(to):
		fr.env[in] = v
	case isString(to) && isInt(from):
		// string(rune): the UTF-8 encoding, a function of the rune; for every one-character string
		// constant of this function it is that constant exactly when the rune is that character
		var r T
		var code T // the character code in the mode's integer sort, for the literal facts
		lit := func(c byte) T { return BVLit(uint64(c), 32) }
		switch {
		case v.T.Sort == SBV32:
			code = v.T
			r = x.define(s, "runestr", mk(SStr, "runestr", code))
		case v.T.Sort == SBV8:
			code = mk(SBV32, "(_ zero_extend 24)", v.T) // string(byte) is string(rune(byte))
			r = x.define(s, "runestr", mk(SStr, "runestr", code))
		case v.T.Sort == SInt && x.mode == "int":
			code = v.T
			lit = func(c byte) T { return IntLit(int64(c)) }
			r = x.define(s, "chrstr", mk(SStr, "chrstr_", code))
		default:
			r = x.fresh(s, "runestr", SStr)
			s.assume(And(x.le(x.ilit(1), x.strLenRaw(r)), x.le(x.strLenRaw(r), x.ilit(4))))
			fr.env[in] = scalar(r)
			break
		}
		if code.S == "" {
			break
		}
		s.assume(And(x.le(x.ilit(1), x.strLenRaw(r)), x.le(x.strLenRaw(r), x.ilit(4))))
		for _, b := range in.Parent().Blocks {
			for _, ins := range b.Instrs {
				for _, op := range ins.Operands(nil) {
					if c, ok := (*op).(*ssa.Const); ok && c.Value != nil && c.Value.Kind() == constant.String {
						if txt := constant.StringVal(c.Value); len(txt) == 1 && txt[0] < 0x80 {
							s.assume(mk(SBool, "=", Eq(r, x.strLit(s, txt)), Eq(code, lit(txt[0]))))
						}
					}
				}
			}
		}
		fr.env[in] = scalar(r)
	case isString(to) && isSlice(from), isString(from) && isSlice(to), isString(from) && isString(to):
		if isString(from) && isString(to) {
			fr.env[in] = v
			return
		}
		fr.env[in] = x.freshVal(s, "conv", to)
		if isSlice(to) && v.K == vScalar {
			// []rune(s): length between 0 and len(s), non-zero iff s non-empty
			r := fr.env[in]
			al := x.alloc(s, "runes")
			r.Arr = al
			r.Off = x.ilit(0)
			fr.env[in] = r
			l := x.strLen(s, v.T)
			s.assume(And(x.le(x.ilit(0), r.Len), x.le(r.Len, l), x.le(r.Len, r.Cap)))
			if et := to.Underlying().(*types.Slice).Elem(); x.sortOf(et) == SBV32 && x.p.Theory != nil {
				// []rune(s): the runes of s — a function of the string (rune_, nrunes_)
				if _, ok := x.p.Theory.Funs["rune_"]; ok {
					is := x.intSort()
					rs := x.sortOf(et)
					key := "S:" + typeStr(et)
					as := SArray(is, rs)
					arr := x.heapSym(s, key, SArray(SInt, as))
					inner := x.fresh(s, "runes.elems", as)
					s.facts = append(s.facts, T{fmt.Sprintf("(forall ((k!r %s)) (! (=> (and %s %s) (= (select %s k!r) (rune_ %s k!r))) :pattern ((select %s k!r))))",
						is, x.le(x.ilit(0), T{"k!r", is}).S, x.lt(T{"k!r", is}, r.Len).S, inner.S, v.T.S, inner.S), SBool})
					x.heapSet(s, key, Store(arr, al, inner))
					s.assume(Eq(r.Len, mk(is, "nrunes_", v.T)))
					x.needTheory = true
				}
			}
		}
	default:
		x.unsupported("%s: convert %s -> %s", x.p.Names[fr.fn], from, to)
		fr.env[in] = x.freshVal(s, "conv", to)
	}
}

func (x *Exec) intToFloat(v T, from types.Type) T {
	if v.Sort == SInt {
		return mk(SFloat, "i2f_", v)
	}
	if isUnsigned(from) {
		return mk(SFloat, "(_ to_fp_unsigned 11 53) RNE", v)
	}
	return mk(SFloat, "(_ to_fp 11 53) RNE", v)
}

var (
	fTwo63    = FloatLit(9223372036854775808.0)
	fNegTwo63 = FloatLit(-9223372036854775808.0)
)

// floatToInt: truncation toward zero when the value fits, otherwise unspecified (Go spec).
func (x *Exec) floatToInt(s *State, v T, to types.Type) T {
	if x.mode == "int" {
		return mk(SInt, "f2i_", v)
	}
	r := x.fresh(s, "f2i", SBV64)
	inRange := And(mk(SBool, "fp.lt", v, fTwo63), mk(SBool, "fp.geq", v, fNegTwo63))
	s.assume(Implies(inRange, Eq(r, mk(SBV64, "(_ fp.to_sbv 64) RTZ", v))))
	return x.convInt(r, types.Typ[types.Int64], to)
}

func (x *Exec) makeClosure(s *State, in *ssa.MakeClosure) {
	fr := s.top()
	fn := in.Fn.(*ssa.Function)
	r := x.alloc(s, "clo."+fn.Name())
	s.assume(Eq(mk(SInt, "fnid", r), IntLit(int64(x.p.fnID(fn)))))
	var binds []Val
	for i, b := range in.Bindings {
		bv := x.valueOf(s, b)
		binds = append(binds, bv)
		if bv.K == vScalar {
			fnm := fmt.Sprintf("bind!%s!%d", sanitize(x.p.Names[fn]), i)
			x.declFun(s, fnm, "(Int) "+string(bv.T.Sort))
			s.assume(Eq(mk(bv.T.Sort, fnm, r), bv.T))
		}
	}
	// capture invariants of the closure must hold now
	if fc := x.contractOf(fn); fc != nil {
		for i, cl := range fc.clauses("captures") {
			env := x.captureEnv(s, fn, binds)
			t, err := env.evalBool(cl.Expr)
			if err != nil {
				x.unsupported("captures of %s: %v", x.p.Names[fn], err)
				continue
			}
			x.oblige(s, "captures", fmt.Sprintf("%s#%s", x.p.Names[fn], clauseLabel(cl, i)), t, in.Pos(), cl.Props)
		}
		// `creation`: what must hold of the captured variables where the closure is made (checked
		// here only; unlike `captures` it is not an invariant the closure may rely on later)
		for i, cl := range fc.clauses("creation") {
			env := x.captureEnv(s, fn, binds)
			t, err := env.evalBool(cl.Expr)
			if err != nil {
				x.unsupported("creation of %s: %v", x.p.Names[fn], err)
				continue
			}
			x.oblige(s, "captures", fmt.Sprintf("%s#creation-%s", x.p.Names[fn], clauseLabel(cl, i)), t, in.Pos(), cl.Props)
		}
		// `ensures[current] result == v` on a closure that is used as an iteratorFunc: what the closure is
		// proved to return (its own obligation) is what Current() of the iterator made from it reports
		// (itcur: iterator.Current is assumed deterministic). Only for a captured variable that is not
		// assigned once closures over it exist.
		for _, cl := range fc.clauses("ensures") {
			if cl.Label != "current" {
				continue
			}
			if why := x.p.stableCaptures(fn); why != "" {
				x.unsupported("ensures[current] of %s: %s", x.p.Names[fn], why)
				continue
			}
			env := x.captureEnv(s, fn, binds)
			if sig, ok := fn.Type().(*types.Signature); ok && sig.Results().Len() == 1 {
				env.vars["result"] = sval{v: scalar(mk(SIface, "itcur", r)), typ: sig.Results().At(0).Type()}
			}
			t, err := env.evalBool(cl.Expr)
			if err != nil {
				x.unsupported("ensures[current] of %s at creation: %v", x.p.Names[fn], err)
				continue
			}
			x.assumed["Current() of an iteratorFunc value reports what its closure is proved to return (ensures[current] of "+x.p.Names[fn]+"; rests on iterator.Current being deterministic and on the captured variable not being reassigned: checked syntactically)"] = true
			s.assume(t)
		}
	}
	fr.env[in] = scalar(r)
}

func (x *Exec) declFun(s *State, name, sig string) {
	d := "(declare-fun " + name + " " + sig + ")"
	for _, e := range s.decls {
		if e == d {
			return
		}
	}
	s.decls = append(s.decls, d)
}

// frameCheck: a write to memory reachable before the call must be allowed by `modifies`.
func (x *Exec) frameCheck(s *State, in ssa.Instruction, target T, key string) {
	fc := x.fnc
	if len(s.frames) != 1 {
		return // inlined callee bodies are covered by their own verification
	}
	if fc != nil && len(fc.Preserves) > 0 && target.S != "" && keyMatches(fc.Preserves, key) && !x.isFresh(s, target) {
		x.oblige(s, "frame", x.label(in), Or(x.freshTerm(s, target), Eq(target, IntLit(0))), in.Pos(), nil)
	}
	if fc == nil || !fc.HasMod || target.S == "" {
		return
	}
	if x.isFresh(s, target) {
		return
	}
	goal := x.freshTerm(s, target)
	var alts []T
	alts = append(alts, goal, Eq(target, IntLit(0)))
	for _, m := range fc.Modifies {
		env := x.specEnvFor(s, "modifies")
		env.old = true
		if t, ok := env.modifiesAllows(m, target, key); ok {
			alts = append(alts, t)
		}
	}
	x.oblige(s, "frame", x.label(in), Or(alts...), in.Pos(), nil)
}
