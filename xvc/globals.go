package main

// Package-level variables: which are constants after init (mechanically checked).

import (
	"go/types"
	"strings"

	"golang.org/x/tools/go/ssa"
)

type gstore struct {
	n      int
	c      *ssa.Const
	fn     *ssa.Function
	inInit bool
}

func (p *Program) scanGlobals() {
	if p.gstores != nil {
		return
	}
	p.gstores = map[string]*gstore{}
	keyOf := func(a ssa.Value) string {
		switch a := a.(type) {
		case *ssa.Global:
			if a.Pkg == p.SSA {
				return "G:" + a.Name()
			}
		case *ssa.FieldAddr:
			if g, ok := a.X.(*ssa.Global); ok && g.Pkg == p.SSA {
				st := g.Type().(*types.Pointer).Elem().Underlying().(*types.Struct)
				return "G:" + g.Name() + "." + st.Field(a.Field).Name()
			}
		}
		return ""
	}
	for _, n := range p.Order {
		f := p.Funcs[n]
		isInit := f.Name() == "init" && f.Parent() == nil
		for _, b := range f.Blocks {
			for _, in := range b.Instrs {
				st, ok := in.(*ssa.Store)
				if !ok {
					continue
				}
				k := keyOf(st.Addr)
				if k == "" {
					continue
				}
				g := p.gstores[k]
				if g == nil {
					g = &gstore{inInit: true}
					p.gstores[k] = g
				}
				g.n++
				if !isInit {
					g.inInit = false
				}
				switch v := st.Val.(type) {
				case *ssa.Const:
					g.c = v
				case *ssa.Function:
					g.fn = v
				case *ssa.MakeClosure:
					if len(v.Bindings) == 0 {
						g.fn = v.Fn.(*ssa.Function)
					}
				}
			}
		}
	}
}

// constGlobal: the location is written only by init (once).
func (p *Program) constGlobal(key string) bool {
	p.scanGlobals()
	base := key
	for _, suf := range []string{"#a", "#o", "#l", "#c"} {
		base = strings.TrimSuffix(base, suf)
	}
	g := p.gstores[base]
	return g != nil && g.inInit && g.n == 1
}

// globalConst returns the constant term a package variable holds for the whole run, if any.
func (p *Program) globalConst(x *Exec, key string) (T, bool) {
	p.scanGlobals()
	g := p.gstores[key]
	if g == nil || !g.inInit || g.n != 1 {
		return T{}, false
	}
	if g.c != nil {
		if g.c.Value == nil {
			return T{}, false
		}
		t := g.c.Type()
		if isInt(t) {
			if i, ok := constIntVal(g.c); ok {
				return x.intLit(i, t), true
			}
		}
		return T{}, false
	}
	return T{}, false
}

func (p *Program) globalFunc(key string) *ssa.Function {
	p.scanGlobals()
	g := p.gstores[key]
	if g == nil || !g.inInit || g.n != 1 {
		return nil
	}
	return g.fn
}

// immutableField: every store to this struct field in the whole package initialises an object
// the storing function has just allocated (composite literals); such a field never changes for
// an object once it is visible to other code.
func (p *Program) immutableField(key string) bool {
	if p.immFields == nil {
		p.immFields = map[string]bool{}
		mutable := map[string]bool{}
		seen := map[string]bool{}
		for _, n := range p.Order {
			for _, b := range p.Funcs[n].Blocks {
				for _, in := range b.Instrs {
					st, ok := in.(*ssa.Store)
					if !ok {
						continue
					}
					fa, ok := st.Addr.(*ssa.FieldAddr)
					if !ok {
						continue
					}
					k, _ := fieldKey(fa.X.Type().Underlying().(*types.Pointer).Elem(), fa.Field)
					seen[k] = true
					if _, isAlloc := fa.X.(*ssa.Alloc); !isAlloc {
						mutable[k] = true
					}
				}
			}
		}
		for k := range seen {
			if !mutable[k] {
				p.immFields[k] = true
			}
		}
	}
	for _, suf := range []string{"#a", "#o", "#l", "#c"} {
		key = strings.TrimSuffix(key, suf)
	}
	return p.immFields[key]
}
