package main

import (
	"fmt"
	"go/types"
	"os"
	"sort"
	"strings"

	"golang.org/x/tools/go/packages"
	"golang.org/x/tools/go/ssa"
	"golang.org/x/tools/go/ssa/ssautil"
)

type Program struct {
	Dir    string
	Pkg    *packages.Package
	SSA    *ssa.Package
	Prog   *ssa.Program
	Funcs  map[string]*ssa.Function // by xvc name
	Names  map[*ssa.Function]string
	Order  []string
	Ctr    *Contracts
	Theory *Theory

	fnIDs      map[*ssa.Function]int
	ifaceTypes map[string]types.Type
	gconst     map[string]*ssa.Const
	gmutable   map[string]bool
	gstores    map[string]*gstore
	cells      map[*ssa.Alloc]*cellInfo
	boxed      map[string]bool
	immFields  map[string]bool
	effC       map[*ssa.Function]*FuncContract

	tagOf   map[string]int // type string -> tag
	tagType map[int]types.Type
	ifaceID map[string]int
	// concrete types of the package (and basic ones) that may be stored in interfaces
	concrete []types.Type
}

// initAlias names the function literals of package-level variable initialisers after the variable
// they are stored in ("plusFunc", "builderPool.New") instead of their ordinal in init.
var initAlias = map[*ssa.Function]string{}

func computeInitAliases(pkg *ssa.Package) {
	init := pkg.Func("init")
	if init == nil {
		return
	}
	for _, b := range init.Blocks {
		for _, in := range b.Instrs {
			st, ok := in.(*ssa.Store)
			if !ok {
				continue
			}
			var fn *ssa.Function
			switch v := st.Val.(type) {
			case *ssa.Function:
				fn = v
			case *ssa.MakeClosure:
				fn, _ = v.Fn.(*ssa.Function)
			}
			if fn == nil || fn.Parent() != init {
				continue
			}
			switch a := st.Addr.(type) {
			case *ssa.Global:
				initAlias[fn] = a.Name()
			case *ssa.FieldAddr:
				if g, ok := a.X.(*ssa.Global); ok {
					st := g.Type().(*types.Pointer).Elem().Underlying().(*types.Struct)
					initAlias[fn] = g.Name() + "." + st.Field(a.Field).Name()
				}
			}
		}
	}
}

// fnName gives the contract key of an SSA function: "f", "(*T).m", "f$1", "init$2".
func fnName(f *ssa.Function) string {
	if a, ok := initAlias[f]; ok {
		return a
	}
	if f.Parent() != nil {
		return fnName(f.Parent()) + f.Name()[strings.LastIndex(f.Name(), "$"):]
	}
	if recv := f.Signature.Recv(); recv != nil {
		t := recv.Type()
		s := types.TypeString(t, func(*types.Package) string { return "" })
		return "(" + s + ")." + f.Name()
	}
	return f.Name()
}

func loadProgram(dir string) (*Program, error) {
	cfg := &packages.Config{Mode: packages.LoadAllSyntax, Dir: dir, BuildFlags: []string{"-tags=verif"},
		Env: append(os.Environ(), "GOFLAGS=-mod=mod", "GOPROXY=off", "GOSUMDB=off", "GOTOOLCHAIN=local")}
	pkgs, err := packages.Load(cfg, ".")
	if err != nil {
		return nil, err
	}
	if len(pkgs) != 1 {
		return nil, fmt.Errorf("expected 1 package, got %d", len(pkgs))
	}
	if len(pkgs[0].Errors) > 0 {
		return nil, fmt.Errorf("package errors: %v", pkgs[0].Errors)
	}
	prog, spkgs := ssautil.AllPackages(pkgs, ssa.GlobalDebug)
	prog.Build()
	p := &Program{Dir: dir, Pkg: pkgs[0], SSA: spkgs[0], Prog: prog,
		Funcs: map[string]*ssa.Function{}, Names: map[*ssa.Function]string{},
		tagOf: map[string]int{}, tagType: map[int]types.Type{}, ifaceID: map[string]int{}}
	computeInitAliases(spkgs[0])
	var add func(f *ssa.Function)
	add = func(f *ssa.Function) {
		if f.Synthetic != "" && !strings.HasPrefix(f.Synthetic, "package init") {
			return
		}
		n := fnName(f)
		p.Funcs[n] = f
		p.Names[f] = n
		for _, a := range f.AnonFuncs {
			add(a)
		}
	}
	for _, m := range p.SSA.Members {
		switch m := m.(type) {
		case *ssa.Function:
			add(m)
		case *ssa.Type:
			for _, t := range []types.Type{m.Type(), types.NewPointer(m.Type())} {
				ms := prog.MethodSets.MethodSet(t)
				for i := 0; i < ms.Len(); i++ {
					if f := prog.MethodValue(ms.At(i)); f != nil && f.Pkg == p.SSA {
						add(f)
					}
				}
			}
		}
	}
	for n := range p.Funcs {
		p.Order = append(p.Order, n)
	}
	sort.Strings(p.Order)
	p.initTypes()
	return p, nil
}

func typeStr(t types.Type) string {
	return types.TypeString(t, func(pk *types.Package) string {
		if pk.Path() == "github.com/antchfx/xpath" {
			return ""
		}
		return pk.Name()
	})
}

func (p *Program) initTypes() {
	// stable tags: basic first, then package named types (value and pointer)
	var ts []types.Type
	for _, k := range []types.BasicKind{types.Bool, types.Int, types.Float64, types.String, types.Int32, types.Uint8, types.Uint64, types.Int64} {
		ts = append(ts, types.Typ[k])
	}
	var names []string
	for n, m := range p.SSA.Members {
		if _, ok := m.(*ssa.Type); ok {
			names = append(names, n)
		}
	}
	sort.Strings(names)
	for _, n := range names {
		t := p.SSA.Members[n].(*ssa.Type).Type()
		if _, isIface := t.Underlying().(*types.Interface); isIface {
			continue
		}
		ts = append(ts, t, types.NewPointer(t))
	}
	for _, t := range ts {
		p.tag(t)
	}
	p.concrete = ts
}

func (p *Program) tag(t types.Type) int {
	s := typeStr(t)
	if id, ok := p.tagOf[s]; ok {
		return id
	}
	id := len(p.tagOf) + 1
	p.tagOf[s] = id
	p.tagType[id] = t
	return id
}

func (p *Program) iface(t types.Type) int {
	s := typeStr(t)
	if id, ok := p.ifaceID[s]; ok {
		return id
	}
	id := len(p.ifaceID) + 1
	p.ifaceID[s] = id
	if p.ifaceTypes == nil {
		p.ifaceTypes = map[string]types.Type{}
	}
	p.ifaceTypes[s] = t
	return id
}

// lookupType resolves a type expression string used in contracts ("*childQuery", "float64").
func (p *Program) lookupType(s string) types.Type {
	s = strings.TrimSpace(s)
	if strings.HasPrefix(s, "*") {
		if e := p.lookupType(s[1:]); e != nil {
			return types.NewPointer(e)
		}
		return nil
	}
	for _, b := range types.Typ {
		if b.Name() == s {
			return b
		}
	}
	if s == "error" {
		return types.Universe.Lookup("error").Type()
	}
	if obj := p.Pkg.Types.Scope().Lookup(s); obj != nil {
		return obj.Type()
	}
	if i := strings.Index(s, "."); i > 0 {
		for path, imp := range p.Pkg.Imports {
			if imp.Types != nil && (imp.Types.Name() == s[:i] || path == s[:i]) {
				if obj := imp.Types.Scope().Lookup(s[i+1:]); obj != nil {
					return obj.Type()
				}
			}
		}
	}
	// function-local named types (e.g. Predicater) are not addressable from contracts
	return nil
}

func (p *Program) isPackageType(t types.Type) bool {
	if pt, ok := t.(*types.Pointer); ok {
		t = pt.Elem()
	}
	n, ok := t.(*types.Named)
	return ok && n.Obj().Pkg() == p.Pkg.Types
}

// closedImpls: for an unexported interface of the package that package types implement, the set of
// implementing types is closed (no client type can be stored in a value of that interface type).
func (p *Program) closedImpls(t types.Type) ([]types.Type, bool) {
	n, ok := t.(*types.Named)
	if !ok || n.Obj().Pkg() != p.Pkg.Types || n.Obj().Exported() {
		return nil, false
	}
	it, ok := t.Underlying().(*types.Interface)
	if !ok || it.NumMethods() == 0 {
		return nil, false
	}
	if p.boxed == nil {
		// a type that no instruction of the package ever converts to an interface cannot be the
		// dynamic type of a value of an unexported interface
		p.boxed = map[string]bool{}
		for _, n := range p.Order {
			for _, b := range p.Funcs[n].Blocks {
				for _, in := range b.Instrs {
					if mi, ok := in.(*ssa.MakeInterface); ok {
						p.boxed[typeStr(mi.X.Type())] = true
					}
				}
			}
		}
	}
	var out []types.Type
	for _, ct := range p.concrete {
		if types.Implements(ct, it) && p.boxed[typeStr(ct)] {
			out = append(out, ct)
		}
	}
	if len(out) == 0 {
		return nil, false
	}
	return out, true
}

// ifaceWithMethod finds an interface type with exactly one method named m among the types the
// package type-asserts to (the function-local `namespaceURL` interfaces).
func (p *Program) ifaceWithMethod(m string) types.Type {
	for _, n := range p.Order {
		for _, b := range p.Funcs[n].Blocks {
			for _, in := range b.Instrs {
				if ta, ok := in.(*ssa.TypeAssert); ok {
					if it, ok := ta.AssertedType.Underlying().(*types.Interface); ok && it.NumMethods() == 1 && it.Method(0).Name() == m {
						return ta.AssertedType
					}
				}
			}
		}
	}
	return nil
}
