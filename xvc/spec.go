package main

// Evaluation of contract expressions (Go expression syntax + a few built-ins) into SMT terms.

import (
	"sort"
	"fmt"
	"go/ast"
	"go/parser"
	"go/token"
	"go/types"
	"math/big"
	"strconv"
	"strings"

	"golang.org/x/tools/go/ssa"
)

type sval struct {
	v    Val
	typ  types.Type // Go type when known
	lit  *big.Int   // untyped integer literal
	flit *float64
	isNil bool
}

type specEnv struct {
	x        *Exec
	s        *State
	vars     map[string]sval
	frame    *Frame
	self     *Val
	selfType types.Type
	old      bool
	oldHeap  map[string]T
	strictOld bool // at(L, e): a heap that was not materialised when the snapshot was taken is an error
	where    string
	fn       *ssa.Function // for free-variable / parameter types
}

func (x *Exec) specEnvFor(s *State, where string) *specEnv {
	fr := s.top()
	return &specEnv{x: x, s: s, frame: fr, where: where, fn: fr.fn, vars: map[string]sval{}}
}

func (x *Exec) captureEnv(s *State, fn *ssa.Function, binds []Val) *specEnv {
	env := &specEnv{x: x, s: s, where: "captures " + x.p.Names[fn], vars: map[string]sval{}}
	for i, fv := range fn.FreeVars {
		// the source-level name denotes the content of the captured cell
		pt := fv.Type().(*types.Pointer)
		v := x.load(s, binds[i], pt.Elem(), false)
		env.vars[fv.Name()] = sval{v: v, typ: pt.Elem()}
	}
	return env
}

// rewriteImplies turns top-level "a ==> b" into implies(a, b) (right associative).
func rewriteImplies(src string) string {
	depth := 0
	inStr := byte(0)
	for i := 0; i+2 < len(src); i++ {
		c := src[i]
		if inStr != 0 {
			if c == '\\' {
				i++
			} else if c == inStr {
				inStr = 0
			}
			continue
		}
		switch c {
		case '"', '\'', '`':
			inStr = c
		case '(', '[', '{':
			depth++
		case ')', ']', '}':
			depth--
		case '=':
			if depth == 0 && src[i:i+3] == "==>" {
				return "implies(" + rewriteInner(src[:i]) + ", " + rewriteImplies(src[i+3:]) + ")"
			}
		}
	}
	return rewriteInner(src)
}

// rewriteInner handles ==> nested inside call arguments / parentheses.
func rewriteInner(src string) string {
	if !strings.Contains(src, "==>") {
		return src
	}
	// find parenthesised groups containing ==> and rewrite each argument
	var out strings.Builder
	i := 0
	for i < len(src) {
		c := src[i]
		if c == '(' {
			j := matchParen(src, i)
			if j < 0 {
				out.WriteString(src[i:])
				break
			}
			inner := src[i+1 : j]
			parts := splitTopLevel(inner, ',')
			for k, p := range parts {
				parts[k] = rewriteImplies(p)
			}
			out.WriteByte('(')
			out.WriteString(strings.Join(parts, ","))
			out.WriteByte(')')
			i = j + 1
			continue
		}
		out.WriteByte(c)
		i++
	}
	return out.String()
}

func matchParen(s string, i int) int {
	depth := 0
	inStr := byte(0)
	for j := i; j < len(s); j++ {
		c := s[j]
		if inStr != 0 {
			if c == '\\' {
				j++
			} else if c == inStr {
				inStr = 0
			}
			continue
		}
		switch c {
		case '"', '`':
			inStr = c
		case '(':
			depth++
		case ')':
			depth--
			if depth == 0 {
				return j
			}
		}
	}
	return -1
}

func splitTopLevel(s string, sep byte) []string {
	var parts []string
	depth := 0
	inStr := byte(0)
	last := 0
	for i := 0; i < len(s); i++ {
		c := s[i]
		if inStr != 0 {
			if c == '\\' {
				i++
			} else if c == inStr {
				inStr = 0
			}
			continue
		}
		switch c {
		case '"', '`':
			inStr = c
		case '(', '[', '{':
			depth++
		case ')', ']', '}':
			depth--
		default:
			if c == sep && depth == 0 {
				parts = append(parts, s[last:i])
				last = i + 1
			}
		}
	}
	return append(parts, s[last:])
}

func parseSpec(src string) (ast.Expr, error) {
	return parser.ParseExpr(rewriteImplies(src))
}

func (e *specEnv) evalBool(src string) (T, error) {
	ex, err := parseSpec(src)
	if err != nil {
		return T{}, fmt.Errorf("parse %q: %v", src, err)
	}
	v, err := e.eval(ex)
	if err != nil {
		return T{}, fmt.Errorf("%q: %v", src, err)
	}
	if v.v.K != vScalar || v.v.T.Sort != SBool {
		return T{}, fmt.Errorf("%q is not boolean (sort %s)", src, v.v.T.Sort)
	}
	return v.v.T, nil
}

func (e *specEnv) evalInt(src string) (T, error) {
	ex, err := parseSpec(src)
	if err != nil {
		return T{}, err
	}
	v, err := e.eval(ex)
	if err != nil {
		return T{}, err
	}
	if v.lit != nil {
		return e.x.ilit(v.lit.Int64()), nil
	}
	return v.v.T, nil
}

func (e *specEnv) evalVal(src string) (sval, error) {
	ex, err := parseSpec(src)
	if err != nil {
		return sval{}, err
	}
	return e.eval(ex)
}

func (e *specEnv) heapOf(key string, sort Sort) T {
	cur := e.x.heapSym(e.s, key, sort)
	if e.old {
		if e.oldHeap != nil {
			if t, ok := e.oldHeap[key]; ok {
				return t
			}
			if e.strictOld {
				panic(fmt.Sprintf("at(): heap %s was not in the loop-head snapshot", key))
			}
			// untouched before the snapshot: entry symbol
			return e.s.heap0[key]
		}
		return e.s.heap0[key]
	}
	return cur
}

// loadField reads obj.f for a pointer-to-struct value.
func (e *specEnv) loadField(ref T, st types.Type, idx int) sval {
	key, ft := fieldKey(st, idx)
	x := e.x
	get := func(k string, so Sort) T { return Select(e.heapOf(k, SArray(SInt, so)), ref, so) }
	if isSlice(ft) {
		is := x.intSort()
		sv := Val{K: vSlice, Arr: get(key+"#a", SInt), Off: get(key+"#o", is), Len: get(key+"#l", is), Cap: get(key+"#c", is), Typ: ft}
		x.assumeSliceWF(e.s, sv)
		return sval{v: sv, typ: ft}
	}
	r := scalar(get(key, x.sortOf(ft)))
	if it, ok := ft.Underlying().(*types.Interface); ok && it.NumMethods() > 0 && !e.old && x.fnc != nil && x.fnc.Theory {
		// well-typedness of the stored interface value (closed world for the package's own interfaces)
		if _, closed := x.p.closedImpls(ft); closed {
			e.s.assume(Or(Eq(r.T, T{"inil", SIface}), x.implementsT(r.T, ft)))
		}
	}
	return sval{v: r, typ: ft}
}

func (e *specEnv) lookup(name string) (sval, bool) {
	if v, ok := e.vars[name]; ok {
		return v, true
	}
	if name == "self" && e.self != nil {
		return sval{v: *e.self, typ: e.selfType}, true
	}
	fr := e.frame
	if fr == nil {
		return sval{}, false
	}
	if v, ok := fr.lets[name]; ok {
		return sval{v: v}, true
	}
	typeOfName := func() types.Type {
		name := name
		if i := strings.Index(name, "#"); i > 0 {
			name = name[:i] // ver(name, i)
		}
		for _, p := range fr.fn.Params {
			if p.Name() == name {
				return p.Type()
			}
		}
		for _, fv := range fr.fn.FreeVars {
			if fv.Name() == name {
				return fv.Type().(*types.Pointer).Elem()
			}
		}
		if t := localVarType(fr.fn, name); t != nil {
			return t
		}
		return nil
	}
	if strings.HasPrefix(e.where, "captures") {
		// in a capture invariant a name means the captured variable, never a local that shadows it
		for i, fv := range fr.fn.FreeVars {
			if fv.Name() == name {
				t := fv.Type().(*types.Pointer).Elem()
				return sval{v: e.x.load(e.s, fr.env[fr.fn.FreeVars[i]], t, false), typ: t}, true
			}
		}
	}
	if e.old {
		// parameters at entry
		for i, p := range fr.fn.Params {
			if p.Name() == name {
				return sval{v: fr.args[i], typ: p.Type()}, true
			}
		}
	}
	if v, ok := fr.names[name]; ok {
		return sval{v: v, typ: typeOfName()}, true
	}
	if _, ok := fr.addrs[name]; !ok {
		// not bound on this path (e.g. after a merge): captured variables live in their cell,
		// parameters keep their entry value
		for _, b := range fr.fn.Blocks {
			for _, in := range b.Instrs {
				if al, isAlloc := in.(*ssa.Alloc); isAlloc && al.Comment == name {
					if av, have := fr.env[al]; have {
						fr.addrs[name] = av
					}
				}
			}
		}
		if _, ok2 := fr.addrs[name]; !ok2 {
			for i, p := range fr.fn.Params {
				if p.Name() == name && i < len(fr.args) {
					return sval{v: fr.args[i], typ: p.Type()}, true
				}
			}
		}
	}
	if a, ok := fr.addrs[name]; ok {
		t := typeOfName()
		if t == nil {
			return sval{}, false
		}
		if _, isStruct := t.Underlying().(*types.Struct); isStruct && a.K == vScalar {
			// a struct-typed local whose address is taken: denote it by its address
			return sval{v: a, typ: types.NewPointer(t)}, true
		}
		if e.old {
			return sval{v: e.x.loadOld(e, a, t), typ: t}, true
		}
		return sval{v: e.x.load(e.s, a, t, false), typ: t}, true
	}
	if strings.HasPrefix(e.where, "ensures") && !strings.Contains(name, "#") {
		// a local that is not bound on this return path: some value of its type (a clause that
		// depends on it must guard with bound(x, i) or hold for every value)
		if t := localVarType(fr.fn, name); t != nil {
			return sval{v: e.x.freshVal(e.s, "unbound."+name, t), typ: t}, true
		}
	}
	return sval{}, false
}

func (x *Exec) loadOld(e *specEnv, a Val, t types.Type) Val {
	if a.K == vScalar {
		so := x.sortOf(t)
		key := cellKey(t)
		if a.Key != "" {
			key = a.Key
		}
		if isSlice(t) {
			is := x.intSort()
			g := func(suf string, s2 Sort) T { return Select(e.heapOf(key+suf, SArray(SInt, s2)), a.T, s2) }
			return Val{K: vSlice, Arr: g("#a", SInt), Off: g("#o", is), Len: g("#l", is), Cap: g("#c", is), Typ: t}
		}
		return scalar(Select(e.heapOf(key, SArray(SInt, so)), a.T, so))
	}
	return x.load(e.s, a, t, true)
}

// localVarType finds the declared type of a source-level local by scanning DebugRefs.
func localVarType(f *ssa.Function, name string) types.Type {
	for _, b := range f.Blocks {
		for _, in := range b.Instrs {
			if d, ok := in.(*ssa.DebugRef); ok {
				if o := d.Object(); o != nil && o.Name() == name {
					if v, ok := o.(*types.Var); ok {
						return v.Type()
					}
				}
			}
		}
	}
	return nil
}

func (e *specEnv) eval(ex ast.Expr) (sval, error) {
	x := e.x
	switch n := ex.(type) {
	case *ast.ParenExpr:
		return e.eval(n.X)
	case *ast.Ident:
		switch n.Name {
		case "true":
			return sval{v: scalar(TTrue), typ: types.Typ[types.Bool]}, nil
		case "false":
			return sval{v: scalar(TFalse), typ: types.Typ[types.Bool]}, nil
		case "nil":
			return sval{isNil: true}, nil
		}
		if v, ok := e.lookup(n.Name); ok {
			return v, nil
		}
		// nullary theory constant / define
		if d, ok := x.p.Ctr.Defines[n.Name]; ok && len(d.Params) == 0 {
			return e.evalVal(d.Body)
		}
		if sig, ok := x.p.Theory.Funs[n.Name]; ok && len(sig.Args) == 0 {
			x.needTheory = true
			return sval{v: scalar(T{n.Name, sig.Ret})}, nil
		}
		// package-level variables
		if g, ok := x.p.SSA.Members[n.Name].(*ssa.Global); ok {
			et := g.Type().(*types.Pointer).Elem()
			gp := Val{K: vGlobalPtr, Key: "G:" + g.Name(), Typ: et}
			return sval{v: x.load(e.s, gp, et, e.old), typ: et}, nil
		}
		// package-level constants (itemEOF, nodeAxis, ElementNode ...)
		if obj := x.p.Pkg.Types.Scope().Lookup(n.Name); obj != nil {
			if c, ok := obj.(*types.Const); ok {
				if i, ok2 := constantInt(c); ok2 {
					return sval{v: scalar(x.intLit(i, c.Type())), typ: c.Type()}, nil
				}
			}
		}
		return sval{}, fmt.Errorf("unknown name %s (%s)", n.Name, e.where)
	case *ast.BasicLit:
		switch n.Kind {
		case token.INT:
			b := new(big.Int)
			b.SetString(n.Value, 0)
			return sval{lit: b}, nil
		case token.CHAR:
			r, _, _, err := strconv.UnquoteChar(n.Value[1:len(n.Value)-1], '\'')
			if err != nil {
				return sval{}, fmt.Errorf("character literal %s", n.Value)
			}
			return sval{lit: big.NewInt(int64(r))}, nil
		case token.FLOAT:
			f, _ := strconv.ParseFloat(n.Value, 64)
			return sval{flit: &f, v: scalar(FloatLit(f)), typ: types.Typ[types.Float64]}, nil
		case token.STRING:
			str, _ := strconv.Unquote(n.Value)
			return sval{v: scalar(x.strLit(e.s, str)), typ: types.Typ[types.String]}, nil
		}
	case *ast.UnaryExpr:
		v, err := e.eval(n.X)
		if err != nil {
			return sval{}, err
		}
		switch n.Op {
		case token.NOT:
			return sval{v: scalar(Not(v.v.T)), typ: types.Typ[types.Bool]}, nil
		case token.SUB:
			if v.lit != nil {
				return sval{lit: new(big.Int).Neg(v.lit)}, nil
			}
			if v.v.T.Sort == SFloat {
				return sval{v: scalar(mk(SFloat, "fp.neg", v.v.T)), typ: v.typ}, nil
			}
			if v.v.T.Sort == SInt {
				return sval{v: scalar(mk(SInt, "-", v.v.T)), typ: v.typ}, nil
			}
			return sval{v: scalar(mk(v.v.T.Sort, "bvneg", v.v.T)), typ: v.typ}, nil
		}
	case *ast.StarExpr:
		v, err := e.eval(n.X)
		if err != nil {
			return sval{}, err
		}
		pt, ok := v.typ.Underlying().(*types.Pointer)
		if !ok {
			return sval{}, fmt.Errorf("deref of non-pointer")
		}
		if e.old {
			return sval{v: x.loadOld(e, v.v, pt.Elem()), typ: pt.Elem()}, nil
		}
		return sval{v: x.load(e.s, v.v, pt.Elem(), false), typ: pt.Elem()}, nil
	case *ast.BinaryExpr:
		return e.evalBinary(n)
	case *ast.SelectorExpr:
		v, err := e.eval(n.X)
		if err != nil {
			return sval{}, err
		}
		if v.typ == nil {
			return sval{}, fmt.Errorf("selector .%s on value of unknown type", n.Sel.Name)
		}
		pt, ok := v.typ.Underlying().(*types.Pointer)
		if !ok {
			return sval{}, fmt.Errorf("selector .%s on non-pointer %s", n.Sel.Name, v.typ)
		}
		st, ok := pt.Elem().Underlying().(*types.Struct)
		if !ok {
			return sval{}, fmt.Errorf("selector on pointer to non-struct")
		}
		for i := 0; i < st.NumFields(); i++ {
			if st.Field(i).Name() == n.Sel.Name {
				return e.loadField(v.v.T, pt.Elem(), i), nil
			}
		}
		// promoted through embedded struct fields (one level)
		for i := 0; i < st.NumFields(); i++ {
			if st.Field(i).Embedded() {
				if est, ok := st.Field(i).Type().Underlying().(*types.Struct); ok {
					for j := 0; j < est.NumFields(); j++ {
						if est.Field(j).Name() == n.Sel.Name {
							key, _ := fieldKey(pt.Elem(), i)
							k2 := key + "." + n.Sel.Name
							ft := est.Field(j).Type()
							so := x.sortOf(ft)
							return sval{v: scalar(Select(e.heapOf(k2, SArray(SInt, so)), v.v.T, so)), typ: ft}, nil
						}
					}
				}
			}
		}
		if x.p.Ctr.GhostFields[typeStr(pt.Elem())+"."+n.Sel.Name] {
			so := x.intSort()
			return sval{v: scalar(Select(e.heapOf("F:"+typeStr(pt.Elem())+"."+n.Sel.Name, SArray(SInt, so)), v.v.T, so)), typ: types.Typ[types.Int]}, nil
		}
		return sval{}, fmt.Errorf("no field %s in %s", n.Sel.Name, pt.Elem())
	case *ast.SliceExpr:
		a, err := e.eval(n.X)
		if err != nil {
			return sval{}, err
		}
		if a.v.K != vScalar || a.v.T.Sort != SStr || n.Low == nil || n.High == nil || n.Slice3 {
			return sval{}, fmt.Errorf("only s[lo:hi] on strings is supported in specifications")
		}
		lo, err := e.eval(n.Low)
		if err != nil {
			return sval{}, err
		}
		hi, err := e.eval(n.High)
		if err != nil {
			return sval{}, err
		}
		return sval{v: scalar(mk(SStr, "str.sub_", a.v.T, e.coerceInt(lo), e.coerceInt(hi))), typ: types.Typ[types.String]}, nil
	case *ast.IndexExpr:
		a, err := e.eval(n.X)
		if err != nil {
			return sval{}, err
		}
		i, err := e.eval(n.Index)
		if err != nil {
			return sval{}, err
		}
		if a.v.K == vSlice {
			idx := e.coerceInt(i)
			et := a.typ.Underlying().(*types.Slice).Elem()
			key := "S:" + typeStr(et)
			at := x.add(a.v.Off, idx)
			get := func(k string, so Sort) T {
				arr := e.heapOf(k, SArray(SInt, SArray(idx.Sort, so)))
				return Select(Select(arr, a.v.Arr, SArray(idx.Sort, so)), at, so)
			}
			if isSlice(et) {
				is := x.intSort()
				return sval{v: Val{K: vSlice, Arr: get(key+"#a", SInt), Off: get(key+"#o", is), Len: get(key+"#l", is), Cap: get(key+"#c", is), Typ: et}, typ: et}, nil
			}
			return sval{v: scalar(get(key, x.sortOf(et))), typ: et}, nil
		}
		if mt, ok := a.typ.Underlying().(*types.Map); ok {
			ks := x.sortOf(mt.Key())
			vs := x.sortOf(mt.Elem())
			mk_ := "M:" + typeStr(a.typ)
			key := i.v.T
			return sval{v: scalar(Select(Select(e.heapOf(mk_+":val", SArray(SInt, SArray(ks, vs))), a.v.T, SArray(ks, vs)), key, vs)), typ: mt.Elem()}, nil
		}
		if a.v.K == vScalar && a.v.T.Sort == SStr {
			// s[i]: the byte at offset i
			return sval{v: scalar(mk(x.byteSort(), "str.at_", a.v.T, e.coerceInt(i))), typ: types.Typ[types.Byte]}, nil
		}
		return sval{}, fmt.Errorf("index of non-slice")
	case *ast.CallExpr:
		return e.evalCall(n)
	}
	return sval{}, fmt.Errorf("unsupported expression %T", ex)
}

func constantInt(c *types.Const) (int64, bool) {
	if b, ok := c.Type().Underlying().(*types.Basic); ok && b.Info()&types.IsInteger != 0 {
		v, ok2 := new(big.Int).SetString(c.Val().ExactString(), 10)
		if ok2 {
			return v.Int64(), true
		}
	}
	return 0, false
}

func (e *specEnv) coerceInt(v sval) T {
	if v.lit != nil {
		return e.x.ilit(v.lit.Int64())
	}
	return v.v.T
}

// coerce brings an untyped literal / nil to the sort of the other operand.
func (e *specEnv) coerce(v sval, other sval) (T, error) {
	x := e.x
	if v.isNil {
		if other.v.K == vSlice {
			return IntLit(0), nil
		}
		switch other.v.T.Sort {
		case SIface:
			return T{"inil", SIface}, nil
		case SInt:
			return IntLit(0), nil
		}
		return T{}, fmt.Errorf("nil compared with sort %s", other.v.T.Sort)
	}
	if v.lit != nil {
		so := other.v.T.Sort
		if other.lit != nil {
			so = x.intSort()
		}
		switch so {
		case SInt:
			if v.lit.Sign() < 0 {
				return T{"(- " + new(big.Int).Neg(v.lit).String() + ")", SInt}, nil
			}
			return T{v.lit.String(), SInt}, nil
		case SBV64, SBV32, SBV8:
			return BVLit(uint64(v.lit.Int64()), sortBits(so)), nil
		case SFloat:
			f, _ := new(big.Float).SetInt(v.lit).Float64()
			return FloatLit(f), nil
		case SPos:
			return T{v.lit.String(), SInt}, nil
		case "":
			return T{v.lit.String(), SInt}, nil
		}
		return T{}, fmt.Errorf("integer literal used with sort %s", so)
	}
	if v.v.K == vSlice {
		return v.v.Arr, nil
	}
	return v.v.T, nil
}

func (e *specEnv) evalBinary(n *ast.BinaryExpr) (sval, error) {
	x := e.x
	if n.Op == token.LAND || n.Op == token.LOR {
		a, err := e.eval(n.X)
		if err != nil {
			return sval{}, err
		}
		b, err := e.eval(n.Y)
		if err != nil {
			return sval{}, err
		}
		if n.Op == token.LAND {
			return sval{v: scalar(And(a.v.T, b.v.T)), typ: types.Typ[types.Bool]}, nil
		}
		return sval{v: scalar(Or(a.v.T, b.v.T)), typ: types.Typ[types.Bool]}, nil
	}
	a, err := e.eval(n.X)
	if err != nil {
		return sval{}, err
	}
	b, err := e.eval(n.Y)
	if err != nil {
		return sval{}, err
	}
	if a.lit != nil && b.lit != nil {
		r := new(big.Int)
		switch n.Op {
		case token.ADD:
			return sval{lit: r.Add(a.lit, b.lit)}, nil
		case token.SUB:
			return sval{lit: r.Sub(a.lit, b.lit)}, nil
		case token.MUL:
			return sval{lit: r.Mul(a.lit, b.lit)}, nil
		}
	}
	at, err := e.coerce(a, b)
	if err != nil {
		return sval{}, err
	}
	bt, err := e.coerce(b, a)
	if err != nil {
		return sval{}, err
	}
	typ := a.typ
	if typ == nil {
		typ = b.typ
	}
	boolT := types.Typ[types.Bool]
	switch n.Op {
	case token.EQL, token.NEQ:
		var r T
		if at.Sort == SFloat {
			r = mk(SBool, "fp.eq", at, bt)
		} else {
			if at.Sort != bt.Sort {
				return sval{}, fmt.Errorf("== across sorts %s / %s", at.Sort, bt.Sort)
			}
			r = Eq(at, bt)
		}
		if n.Op == token.NEQ {
			r = Not(r)
		}
		return sval{v: scalar(r), typ: boolT}, nil
	}
	uns := typ != nil && isInt(typ) && isUnsigned(typ)
	switch at.Sort {
	case SFloat:
		r := x.floatOp(n.Op, at, bt)
		if r.S == "" {
			return sval{}, fmt.Errorf("float op %s", n.Op)
		}
		if r.Sort == SBool {
			return sval{v: scalar(r), typ: boolT}, nil
		}
		return sval{v: scalar(r), typ: typ}, nil
	case SInt:
		op := map[token.Token]string{token.ADD: "+", token.SUB: "-", token.MUL: "*", token.QUO: "div", token.REM: "mod", token.LSS: "<", token.LEQ: "<=", token.GTR: ">", token.GEQ: ">="}[n.Op]
		if op == "" {
			return sval{}, fmt.Errorf("int op %s", n.Op)
		}
		so := SInt
		if strings.ContainsAny(op, "<>") {
			return sval{v: scalar(mk(SBool, op, at, bt)), typ: boolT}, nil
		}
		return sval{v: scalar(mk(Sort(so), op, at, bt)), typ: typ}, nil
	case SBV64, SBV32, SBV8:
		var op string
		switch n.Op {
		case token.ADD:
			op = "bvadd"
		case token.SUB:
			op = "bvsub"
		case token.MUL:
			op = "bvmul"
		case token.AND:
			op = "bvand"
		case token.OR:
			op = "bvor"
		case token.LSS:
			op = map[bool]string{true: "bvult", false: "bvslt"}[uns]
		case token.LEQ:
			op = map[bool]string{true: "bvule", false: "bvsle"}[uns]
		case token.GTR:
			op = map[bool]string{true: "bvugt", false: "bvsgt"}[uns]
		case token.GEQ:
			op = map[bool]string{true: "bvuge", false: "bvsge"}[uns]
		}
		if op == "" {
			return sval{}, fmt.Errorf("bv op %s", n.Op)
		}
		if strings.HasSuffix(op, "lt") || strings.HasSuffix(op, "le") || strings.HasSuffix(op, "gt") || strings.HasSuffix(op, "ge") {
			return sval{v: scalar(mk(SBool, op, at, bt)), typ: boolT}, nil
		}
		return sval{v: scalar(mk(at.Sort, op, at, bt)), typ: typ}, nil
	case SStr:
		if n.Op == token.ADD {
			return sval{v: scalar(x.strCat(e.s, at, bt)), typ: typ}, nil
		}
	}
	return sval{}, fmt.Errorf("operator %s on sort %s", n.Op, at.Sort)
}

func (e *specEnv) evalCall(n *ast.CallExpr) (sval, error) {
	x := e.x
	name := ""
	if id, ok := n.Fun.(*ast.Ident); ok {
		name = id.Name
	} else {
		return sval{}, fmt.Errorf("unsupported call form")
	}
	boolT := types.Typ[types.Bool]
	arg := func(i int) (sval, error) { return e.eval(n.Args[i]) }
	switch name {
	case "old":
		sub := *e
		sub.old = true
		return sub.eval(n.Args[0])
	case "at": // at(L, e): heap reads of e as they were at the head of loop L in its current iteration
		lit, ok := n.Args[0].(*ast.BasicLit)
		if !ok || e.frame == nil {
			return sval{}, fmt.Errorf("at(loop, expr)")
		}
		ord, _ := strconv.Atoi(lit.Value)
		snap, ok := e.frame.loopHeads[ord]
		if !ok {
			return sval{}, fmt.Errorf("at(%d, ..): not inside that loop on this path", ord)
		}
		sub := *e
		sub.old = true
		sub.oldHeap = snap
		sub.strictOld = true
		if hn, ok := e.frame.loopHeadNames[ord]; ok {
			// local variables, too, as they were at the head of that round
			fc := *e.frame
			fc.names = hn
			sub.frame = &fc
		}
		return sub.eval(n.Args[1])
	case "implies":
		a, err := arg(0)
		if err != nil {
			return sval{}, err
		}
		b, err := arg(1)
		if err != nil {
			return sval{}, err
		}
		return sval{v: scalar(Implies(a.v.T, b.v.T)), typ: boolT}, nil
	case "iff":
		a, err := arg(0)
		if err != nil {
			return sval{}, err
		}
		b, err := arg(1)
		if err != nil {
			return sval{}, err
		}
		return sval{v: scalar(mk(SBool, "=", a.v.T, b.v.T)), typ: boolT}, nil
	case "ite":
		c, err := arg(0)
		if err != nil {
			return sval{}, err
		}
		a, err := arg(1)
		if err != nil {
			return sval{}, err
		}
		b, err := arg(2)
		if err != nil {
			return sval{}, err
		}
		at, err := e.coerce(a, b)
		if err != nil {
			return sval{}, err
		}
		bt, err := e.coerce(b, a)
		if err != nil {
			return sval{}, err
		}
		t := a.typ
		if t == nil {
			t = b.typ
		}
		return sval{v: scalar(Ite(c.v.T, at, bt)), typ: t}, nil
	case "len":
		a, err := arg(0)
		if err != nil {
			return sval{}, err
		}
		if a.v.K == vSlice {
			return sval{v: scalar(a.v.Len), typ: types.Typ[types.Int]}, nil
		}
		if a.v.T.Sort == SStr {
			if strings.Contains(a.v.T.S, "!q") {
				// under a quantifier: no side facts about a term that mentions the bound variable
				return sval{v: scalar(x.strLenRaw(a.v.T)), typ: types.Typ[types.Int]}, nil
			}
			return sval{v: scalar(x.strLen(e.s, a.v.T)), typ: types.Typ[types.Int]}, nil
		}
		if _, ok := a.typ.Underlying().(*types.Map); ok {
			mk_ := "M:" + typeStr(a.typ)
			return sval{v: scalar(Select(e.heapOf(mk_+":size", SArray(SInt, x.intSort())), a.v.T, x.intSort())), typ: types.Typ[types.Int]}, nil
		}
		return sval{}, fmt.Errorf("len of unsupported value")
	case "has": // has(m, k): key present in map
		m, err := arg(0)
		if err != nil {
			return sval{}, err
		}
		k, err := arg(1)
		if err != nil {
			return sval{}, err
		}
		mk_ := "M:" + typeStr(m.typ)
		ks := k.v.T.Sort
		return sval{v: scalar(Select(Select(e.heapOf(mk_+":has", SArray(SInt, SArray(ks, SBool))), m.v.T, SArray(ks, SBool)), k.v.T, SBool)), typ: boolT}, nil
	case "forall", "exists":
		// forall(i, int, body)  |  forall(p, Pos, body)
		id, ok := n.Args[0].(*ast.Ident)
		if !ok {
			return sval{}, fmt.Errorf("%s: first argument must be a variable name", name)
		}
		tn := exprString(n.Args[1])
		var so Sort
		var gt types.Type
		switch tn {
		case "int":
			so, gt = x.intSort(), types.Typ[types.Int]
		case "Int":
			so = SInt
		case "Pos":
			so = SPos
			x.needTheory = true
		case "bool":
			so, gt = SBool, boolT
		case "float64":
			so, gt = SFloat, types.Typ[types.Float64]
		case "string":
			so, gt = SStr, types.Typ[types.String]
		case "any":
			so = SIface
		default:
			if t := x.p.lookupType(tn); t != nil {
				so, gt = x.sortOf(t), t
			} else {
				return sval{}, fmt.Errorf("quantifier over unknown type %s", tn)
			}
		}
		x.nfresh++
		bv := fmt.Sprintf("%s!q%d", id.Name, x.nfresh)
		sub := *e
		sub.vars = map[string]sval{}
		for k, v := range e.vars {
			sub.vars[k] = v
		}
		sub.vars[id.Name] = sval{v: scalar(T{bv, so}), typ: gt}
		body, err := sub.eval(n.Args[2])
		if err != nil {
			return sval{}, err
		}
		pat := ""
		if len(n.Args) > 3 {
			// explicit trigger terms
			var ps []string
			for _, pa := range n.Args[3:] {
				pv, err := sub.eval(pa)
				if err != nil {
					return sval{}, err
				}
				ps = append(ps, pv.v.T.S)
			}
			pat = " :pattern (" + strings.Join(ps, " ") + ")"
		}
		q := name
		var t T
		if in := body.v.T.S; pat == "" && strings.HasPrefix(in, "("+q+" (") {
			// nested quantifiers of the same kind become one (so that one trigger covers all variables)
			depth, end := 0, -1
			start := len("(" + q + " ")
			for i := start; i < len(in); i++ {
				if in[i] == '(' {
					depth++
				} else if in[i] == ')' {
					depth--
					if depth == 0 {
						end = i
						break
					}
				}
			}
			if end > 0 {
				binders := in[start+1 : end] // without the outer parentheses of the binder list
				t = T{fmt.Sprintf("(%s ((%s %s) %s)%s", q, bv, so, binders, in[end+1:]), SBool}
				return sval{v: scalar(t), typ: boolT}, nil
			}
		}
		if pat != "" {
			t = T{fmt.Sprintf("(%s ((%s %s)) (! %s%s))", q, bv, so, body.v.T.S, pat), SBool}
		} else {
			t = T{fmt.Sprintf("(%s ((%s %s)) %s)", q, bv, so, body.v.T.S), SBool}
		}
		return sval{v: scalar(t), typ: boolT}, nil
	case "is": // is(v, T): dynamic type of interface value v is exactly T
		v, err := arg(0)
		if err != nil {
			return sval{}, err
		}
		t := x.p.lookupType(exprString(n.Args[1]))
		if t == nil {
			return sval{}, fmt.Errorf("is: unknown type %s", exprString(n.Args[1]))
		}
		if v.v.T.Sort != SIface {
			return sval{}, fmt.Errorf("is() on non-interface value")
		}
		if isIface(t) {
			return sval{v: scalar(x.implementsT(v.v.T, t)), typ: boolT}, nil
		}
		return sval{v: scalar(x.isType(v.v.T, t)), typ: boolT}, nil
	case "as": // as(v, T): payload of interface value v viewed as T
		v, err := arg(0)
		if err != nil {
			return sval{}, err
		}
		t := x.p.lookupType(exprString(n.Args[1]))
		if t == nil {
			return sval{}, fmt.Errorf("as: unknown type %s", exprString(n.Args[1]))
		}
		if isIface(t) {
			return sval{v: v.v, typ: t}, nil
		}
		return sval{v: x.unbox(e.s, v.v.T, t), typ: t}, nil
	case "box": // box(v): the interface value holding v
		v, err := arg(0)
		if err != nil {
			return sval{}, err
		}
		if v.typ == nil {
			return sval{}, fmt.Errorf("box of untyped value")
		}
		return sval{v: scalar(x.box(e.s, v.v, v.typ)), typ: types.NewInterfaceType(nil, nil)}, nil
	case "elemsNonNil": // every element of a slice of pointers/interfaces/funcs is non-nil
		a, err := arg(0)
		if err != nil {
			return sval{}, err
		}
		if a.v.K != vSlice {
			return sval{}, fmt.Errorf("elemsNonNil of non-slice")
		}
		et := a.typ.Underlying().(*types.Slice).Elem()
		so := x.sortOf(et)
		is := x.intSort()
		inner := Select(e.heapOf("S:"+typeStr(et), SArray(SInt, SArray(is, so))), a.v.Arr, SArray(is, so))
		nilv := "0"
		if so == SIface {
			nilv = "inil"
		}
		x.nfresh++
		j := T{fmt.Sprintf("j!q%d", x.nfresh), is}
		t := T{fmt.Sprintf("(forall ((%s %s)) (! (=> (and %s %s) (not (= (select %s %s) %s))) :pattern ((select %s %s))))",
			j.S, is, x.le(a.v.Off, j).S, x.lt(j, x.add(a.v.Off, a.v.Len)).S, inner.S, j.S, nilv, inner.S, j.S), SBool}
		return sval{v: scalar(t), typ: boolT}, nil
	case "isFresh": // allocated during this call
		v, err := arg(0)
		if err != nil {
			return sval{}, err
		}
		ref := v.v.T
		if v.v.K == vSlice {
			ref = v.v.Arr
		}
		if ref.Sort == SIface {
			ref = mk(SInt, "iptr", ref)
		}
		x.heapSym(e.s, "alloc", SArray(SInt, SBool))
		base := e.s.heap0["alloc"]
		if e.oldHeap != nil {
			if t, ok := e.oldHeap["alloc"]; ok {
				base = t
			}
		}
		return sval{v: scalar(Not(Select(base, ref, SBool))), typ: boolT}, nil
	case "nan":
		return sval{v: scalar(T{"(_ NaN 11 53)", SFloat}), typ: types.Typ[types.Float64]}, nil
	case "strlt":
		a, err := arg(0)
		if err != nil {
			return sval{}, err
		}
		b, err := arg(1)
		if err != nil {
			return sval{}, err
		}
		return sval{v: scalar(mk(SBool, "str.lt_", a.v.T, b.v.T)), typ: boolT}, nil
	case "sameF": // the same float64 value (NaN is the same as NaN, +0 differs from -0)
		a, err := arg(0)
		if err != nil {
			return sval{}, err
		}
		b, err := arg(1)
		if err != nil {
			return sval{}, err
		}
		at, err := e.coerce(a, b)
		if err != nil {
			return sval{}, err
		}
		bt, err := e.coerce(b, a)
		if err != nil {
			return sval{}, err
		}
		return sval{v: scalar(Eq(at, bt)), typ: boolT}, nil
	case "floor", "ceil":
		v, err := arg(0)
		if err != nil {
			return sval{}, err
		}
		mode := map[string]string{"floor": "RTN", "ceil": "RTP"}[name]
		return sval{v: scalar(mk(SFloat, "fp.roundToIntegral "+mode, v.v.T)), typ: types.Typ[types.Float64]}, nil
	case "isNaN":
		v, err := arg(0)
		if err != nil {
			return sval{}, err
		}
		return sval{v: scalar(mk(SBool, "fp.isNaN", v.v.T)), typ: boolT}, nil
	case "isInf":
		v, err := arg(0)
		if err != nil {
			return sval{}, err
		}
		return sval{v: scalar(mk(SBool, "fp.isInfinite", v.v.T)), typ: boolT}, nil
	case "float": // float(i): int -> float64 conversion as Go does it
		v, err := arg(0)
		if err != nil {
			return sval{}, err
		}
		if v.lit != nil {
			f, _ := new(big.Float).SetInt(v.lit).Float64()
			return sval{v: scalar(FloatLit(f)), typ: types.Typ[types.Float64]}, nil
		}
		return sval{v: scalar(x.intToFloat(v.v.T, types.Typ[types.Int])), typ: types.Typ[types.Float64]}, nil
	case "movesOnly": // movesOnly(a, b...): every navigator that existed in the old state, other than a, b..., is where it was
		x.needTheory = true
		cur := x.heapSym(e.s, "navpos", SArray(SInt, SPos))
		x.heapSym(e.s, "alloc", SArray(SInt, SBool))
		oldNav, oldAl := e.s.heap0["navpos"], e.s.heap0["alloc"]
		if e.oldHeap != nil {
			if t, ok := e.oldHeap["navpos"]; ok {
				oldNav = t
			}
			if t, ok := e.oldHeap["alloc"]; ok {
				oldAl = t
			}
		}
		x.nfresh++
		r := T{fmt.Sprintf("r!q%d", x.nfresh), SInt}
		conds := []T{Select(oldAl, r, SBool)}
		for i := range n.Args {
			v, err := arg(i)
			if err != nil {
				return sval{}, err
			}
			conds = append(conds, Not(Eq(r, mk(SInt, "iptr", v.v.T))))
		}
		body := Implies(And(conds...), Eq(Select(cur, r, SPos), Select(oldNav, r, SPos)))
		return sval{v: scalar(T{fmt.Sprintf("(forall ((%s Int)) (! %s :pattern (%s)))", r.S, body.S, Select(cur, r, SPos).S), SBool}), typ: boolT}, nil
	case "pos": // ghost position of a navigator value
		v, err := arg(0)
		if err != nil {
			return sval{}, err
		}
		x.needTheory = true
		return sval{v: scalar(Select(e.heapOf("navpos", SArray(SInt, SPos)), mk(SInt, "iptr", v.v.T), SPos))}, nil
	case "k", "epoch", "ctxp": // ghost counters of a query object
		v, err := arg(0)
		if err != nil {
			return sval{}, err
		}
		ref := v.v.T
		if ref.Sort == SIface {
			ref = mk(SInt, "iptr", ref)
		}
		x.needTheory = true
		so := SInt
		if name == "ctxp" {
			so = SPos
		}
		return sval{v: scalar(Select(e.heapOf("ghost:"+name, SArray(SInt, so)), ref, so))}, nil
	case "ver": // ver(x, i): the i-th distinct value the local variable x was bound to on this path (0-based)
		id, ok := n.Args[0].(*ast.Ident)
		lit, ok2 := n.Args[1].(*ast.BasicLit)
		if !ok || !ok2 {
			return sval{}, fmt.Errorf("ver(name, index)")
		}
		v, found := e.lookup(id.Name + "#" + lit.Value)
		if !found {
			// not bound on this path: some value of the variable's type (guard with bound(x, i))
			if e.frame != nil {
				if t := localVarType(e.frame.fn, id.Name); t != nil {
					return sval{v: x.freshVal(e.s, "unbound."+id.Name, t), typ: t}, nil
				}
			}
			return sval{}, fmt.Errorf("ver(%s, %s): not bound on this path", id.Name, lit.Value)
		}
		return v, nil
	case "bound": // bound(x, i): ver(x, i) exists on this path
		id, ok := n.Args[0].(*ast.Ident)
		lit, ok2 := n.Args[1].(*ast.BasicLit)
		if !ok || !ok2 {
			return sval{}, fmt.Errorf("bound(name, index)")
		}
		_, found := e.lookup(id.Name + "#" + lit.Value)
		return sval{v: scalar(Bool(found)), typ: boolT}, nil
	case "int": // int(f): float64 -> int as Go does it when the value fits (truncation); unspecified otherwise
		v, err := arg(0)
		if err != nil {
			return sval{}, err
		}
		if v.v.T.Sort != SFloat {
			return sval{}, fmt.Errorf("int() of sort %s", v.v.T.Sort)
		}
		return sval{v: scalar(x.floatToInt(e.s, v.v.T, types.Typ[types.Int])), typ: types.Typ[types.Int]}, nil
	case "live": // live(x): the object x refers to exists (has been allocated) in the current state
		v, err := arg(0)
		if err != nil {
			return sval{}, err
		}
		ref := v.v.T
		if v.v.K == vSlice {
			ref = v.v.Arr
		}
		if ref.Sort == SIface {
			ref = mk(SInt, "iptr", ref)
		}
		return sval{v: scalar(Select(e.heapOf("alloc", SArray(SInt, SBool)), ref, SBool)), typ: boolT}, nil
	case "bytesOf": // the content of a byte slice read as a string
		v, err := arg(0)
		if err != nil {
			return sval{}, err
		}
		if v.v.K != vSlice {
			return sval{}, fmt.Errorf("bytesOf needs a slice")
		}
		return sval{v: scalar(mk(SStr, "bytes_str", v.v.Arr)), typ: types.Typ[types.String]}, nil
	case "buf": // ghost content of a string builder
		v, err := arg(0)
		if err != nil {
			return sval{}, err
		}
		ref := v.v.T
		if ref.Sort == SIface {
			ref = mk(SInt, "iptr", ref)
		}
		return sval{v: scalar(Select(e.heapOf("ghost:buf", SArray(SInt, SStr)), ref, SStr)), typ: types.Typ[types.String]}, nil
	case "xh", "ixh": // ghost exhaustion flags: xh(query) / ixh(function value)
		v, err := arg(0)
		if err != nil {
			return sval{}, err
		}
		ref := v.v.T
		if ref.Sort == SIface {
			ref = mk(SInt, "iptr", ref)
		}
		x.needTheory = true
		return sval{v: scalar(Select(e.heapOf("ghost:"+name, SArray(SInt, SBool)), ref, SBool)), typ: boolT}, nil
	case "hasMethod": // hasMethod(v, "M"): the dynamic type of v has method M (an interface with just that method is satisfied)
		v, err := arg(0)
		if err != nil {
			return sval{}, err
		}
		lit, ok := n.Args[1].(*ast.BasicLit)
		if !ok {
			return sval{}, fmt.Errorf("hasMethod needs a method name")
		}
		mn, _ := strconv.Unquote(lit.Value)
		it := x.p.ifaceWithMethod(mn)
		if it == nil {
			return sval{}, fmt.Errorf("no single-method interface with method %s is asserted anywhere", mn)
		}
		return sval{v: scalar(x.implementsT(v.v.T, it)), typ: boolT}, nil
	case "argval": // argval(f, i, k): the k-th argument (receiver excluded) of the textually i-th call of f in this function, as passed on this path
		id, ok := n.Args[0].(*ast.Ident)
		lit, ok2 := n.Args[1].(*ast.BasicLit)
		lit3, ok3 := n.Args[2].(*ast.BasicLit)
		if !ok || !ok2 || !ok3 || e.frame == nil {
			return sval{}, fmt.Errorf("argval(function, call index, argument index)")
		}
		idx, _ := strconv.Atoi(lit.Value)
		k, _ := strconv.Atoi(lit3.Value)
		var calls []*ssa.Call
		for _, b := range e.frame.fn.Blocks {
			for _, in := range b.Instrs {
				if c, ok := in.(*ssa.Call); ok {
					if sc := c.Call.StaticCallee(); sc != nil && (sc.Name() == id.Name || x.p.Names[sc] == id.Name) {
						calls = append(calls, c)
					}
				}
			}
		}
		sort.Slice(calls, func(i, j int) bool { return calls[i].Pos() < calls[j].Pos() })
		if idx >= len(calls) {
			return sval{}, fmt.Errorf("argval(%s, %d, ..): this function has only %d calls of it", id.Name, idx, len(calls))
		}
		c := calls[idx]
		sc := c.Call.StaticCallee()
		if sc.Signature.Recv() != nil {
			k++ // Args[0] is the receiver
		}
		if k >= len(c.Call.Args) {
			return sval{}, fmt.Errorf("argval(%s, %d, %d): no such argument", id.Name, idx, k)
		}
		av := c.Call.Args[k]
		if _, ran := e.frame.env[c]; !ran {
			return sval{v: x.freshVal(e.s, "notcalled", av.Type()), typ: av.Type()}, nil
		}
		if given, have := e.frame.callArgs[c]; have && k < len(given) {
			return sval{v: given[k], typ: av.Type()}, nil // as it was when the call was made
		}
		if v, have := e.frame.env[av]; have {
			return sval{v: v, typ: av.Type()}, nil
		}
		if cst, isConst := av.(*ssa.Const); isConst {
			_ = cst
			return sval{v: x.valueOf(e.s, av), typ: av.Type()}, nil
		}
		return sval{}, fmt.Errorf("argval(%s, %d, %d): the argument value is not available on this path", id.Name, idx, k)
	case "retval", "called": // retval(f, i): what the textually i-th call of f in this function returned on this path; called(f, i): whether it ran
		id, ok := n.Args[0].(*ast.Ident)
		lit, ok2 := n.Args[1].(*ast.BasicLit)
		if !ok || !ok2 || e.frame == nil {
			return sval{}, fmt.Errorf("%s(function, index)", name)
		}
		idx, _ := strconv.Atoi(lit.Value)
		var calls []*ssa.Call
		for _, b := range e.frame.fn.Blocks {
			for _, in := range b.Instrs {
				if c, ok := in.(*ssa.Call); ok {
					if sc := c.Call.StaticCallee(); sc != nil && (sc.Name() == id.Name || x.p.Names[sc] == id.Name) {
						calls = append(calls, c)
					} else if c.Call.IsInvoke() && c.Call.Method.Name() == id.Name {
						calls = append(calls, c) // interface method call, by method name
					}
				}
			}
		}
		sort.Slice(calls, func(i, j int) bool { return calls[i].Pos() < calls[j].Pos() })
		if idx >= len(calls) {
			return sval{}, fmt.Errorf("%s(%s, %d): this function has only %d calls of it", name, id.Name, idx, len(calls))
		}
		v, ran := e.frame.env[calls[idx]]
		if name == "called" {
			if ran {
				if c, cond := e.frame.ranCond[calls[idx]]; cond {
					return sval{v: scalar(c), typ: boolT}, nil // ran on some of the paths merged into this one
				}
				return sval{v: scalar(TTrue), typ: boolT}, nil
			}
			return sval{v: scalar(TFalse), typ: boolT}, nil
		}
		rt := calls[idx].Call.Signature().Results()
		ri := 0
		if len(n.Args) == 3 { // retval(f, i, k): the k-th result of a multi-result function
			if l3, ok3 := n.Args[2].(*ast.BasicLit); ok3 {
				ri, _ = strconv.Atoi(l3.Value)
			}
		} else if rt.Len() != 1 {
			return sval{}, fmt.Errorf("retval(%s): not a single-result function (use retval(f, i, k))", id.Name)
		}
		if ri >= rt.Len() {
			return sval{}, fmt.Errorf("retval(%s, %d, %d): no such result", id.Name, idx, ri)
		}
		if !ran {
			return sval{v: x.freshVal(e.s, "notcalled", rt.At(ri).Type()), typ: rt.At(ri).Type()}, nil
		}
		if rt.Len() > 1 {
			if v.K != vTuple || ri >= len(v.Parts) {
				return sval{}, fmt.Errorf("retval(%s): result is not a tuple on this path", id.Name)
			}
			return sval{v: v.Parts[ri], typ: rt.At(ri).Type()}, nil
		}
		return sval{v: v, typ: rt.At(0).Type()}, nil
	case "rangeidx": // rangeidx(K): byte offset of the next rune of the range-over-string loop K
		lit, ok := n.Args[0].(*ast.BasicLit)
		if !ok || e.frame == nil {
			return sval{}, fmt.Errorf("rangeidx(loop)")
		}
		ord, _ := strconv.Atoi(lit.Value)
		li := x.loopsOf(e.frame.fn)
		for hb, o := range li.ord {
			if o != ord {
				continue
			}
			for _, in := range hb.Instrs {
				if nx, ok := in.(*ssa.Next); ok && nx.IsString {
					if rg, ok := nx.Iter.(*ssa.Range); ok {
						return sval{v: scalar(e.heapOf(x.rangeKey(rg), x.intSort())), typ: types.Typ[types.Int]}, nil
					}
				}
			}
		}
		return sval{}, fmt.Errorf("rangeidx(%d): loop %d is not a range over a string", ord, ord)
	case "isSpace": // isSpace(r): unicode.IsSpace(r), the function the library model uses
		v, err := arg(0)
		if err != nil {
			return sval{}, err
		}
		c := v.v.T
		if v.lit != nil {
			c = e.coerceInt(v)
		}
		x.declFun(e.s, "unicode.IsSpace_", "("+string(c.Sort)+") Bool")
		return sval{v: scalar(mk(SBool, "unicode.IsSpace_", c)), typ: boolT}, nil
	case "chr": // chr(c): string(rune(c)) for a byte or rune c
		v, err := arg(0)
		if err != nil {
			return sval{}, err
		}
		c := v.v.T
		if v.lit != nil {
			c = e.coerceInt(v)
		}
		switch {
		case c.Sort == SBV32:
			return sval{v: scalar(mk(SStr, "runestr", c)), typ: types.Typ[types.String]}, nil
		case c.Sort == SBV8:
			return sval{v: scalar(mk(SStr, "runestr", mk(SBV32, "(_ zero_extend 24)", c))), typ: types.Typ[types.String]}, nil
		case c.Sort == SInt && x.mode == "int":
			x.needTheory = true
			return sval{v: scalar(mk(SStr, "chrstr_", c)), typ: types.Typ[types.String]}, nil
		}
		return sval{}, fmt.Errorf("chr() of a %s value", c.Sort)
	case "replApply": // replApply(pairs, s): strings.NewReplacer(pairs...).Replace(s)
		sl, err := arg(0)
		if err != nil {
			return sval{}, err
		}
		sv, err := arg(1)
		if err != nil {
			return sval{}, err
		}
		if sl.v.K != vSlice || sv.v.T.Sort != SStr {
			return sval{}, fmt.Errorf("replApply(slice of strings, string)")
		}
		is := x.intSort()
		inner := Select(e.heapOf("S:string", SArray(SInt, SArray(is, SStr))), sl.v.Arr, SArray(is, SStr))
		x.needTheory = true
		return sval{v: scalar(mk(SStr, "repl_apply", inner, sl.v.Off, sl.v.Len, sv.v.T)), typ: types.Typ[types.String]}, nil
	case "captured": // captured(v): the variable a closure captured, even when a local shadows its name
		id, ok := n.Args[0].(*ast.Ident)
		if !ok || e.frame == nil {
			return sval{}, fmt.Errorf("captured() needs a variable name inside a closure")
		}
		for i, fv := range e.frame.fn.FreeVars {
			if fv.Name() == id.Name {
				t := fv.Type().(*types.Pointer).Elem()
				cell := e.frame.env[e.frame.fn.FreeVars[i]]
				if e.old {
					return sval{v: x.loadOld(e, cell, t), typ: t}, nil
				}
				return sval{v: x.load(e.s, cell, t, false), typ: t}, nil
			}
		}
		return sval{}, fmt.Errorf("captured(%s): no such free variable", id.Name)
	case "tagof":
		v, err := arg(0)
		if err != nil {
			return sval{}, err
		}
		return sval{v: scalar(mk(SInt, "dyntag", v.v.T))}, nil
	case "ref": // the pointer inside an interface value
		v, err := arg(0)
		if err != nil {
			return sval{}, err
		}
		if v.v.T.Sort == SInt {
			return sval{v: scalar(v.v.T)}, nil // already a pointer
		}
		return sval{v: scalar(mk(SInt, "iptr", v.v.T))}, nil
	case "fn": // fn(v) == "name": identity of a function value
		v, err := arg(0)
		if err != nil {
			return sval{}, err
		}
		return sval{v: scalar(mk(SInt, "fnid", v.v.T))}, nil
	case "fnid": // fnid("eqFunc")
		if lit, ok := n.Args[0].(*ast.BasicLit); ok {
			nm, _ := strconv.Unquote(lit.Value)
			f := x.p.Funcs[nm]
			if f == nil {
				return sval{}, fmt.Errorf("fnid: unknown function %s", nm)
			}
			return sval{v: scalar(IntLit(int64(x.p.fnID(f))))}, nil
		}
	case "ghost": // ghost("name"): named ghost scalar (Int) of the state
		if lit, ok := n.Args[0].(*ast.BasicLit); ok {
			nm, _ := strconv.Unquote(lit.Value)
			key := "ghost:" + nm
			t := e.heapOf(key, SInt)
			return sval{v: scalar(t)}, nil
		}
	}
	// a package function declared `pure` can be used in specifications
	if pf := x.p.Funcs[name]; pf != nil {
		if pc := x.p.Ctr.Funcs[name]; pc != nil && pc.Pure && pf.Signature.Results().Len() == 1 {
			var ts []T
			sig := "("
			for i := range n.Args {
				a, err := e.eval(n.Args[i])
				if err != nil {
					return sval{}, err
				}
				want := x.sortOf(pf.Signature.Params().At(i).Type())
				t, err := e.coerceTo(a, want)
				if err != nil {
					return sval{}, err
				}
				if i > 0 {
					sig += " "
				}
				sig += string(t.Sort)
				ts = append(ts, t)
			}
			rt := pf.Signature.Results().At(0).Type()
			rs := x.sortOf(rt)
			fn := "pure!" + sanitize(name)
			x.declFun(e.s, fn, sig+") "+string(rs))
			return sval{v: scalar(mk(rs, fn, ts...)), typ: rt}, nil
		}
	}
	// contract-level macro
	if d, ok := x.p.Ctr.Defines[name]; ok {
		if len(d.Params) != len(n.Args) {
			return sval{}, fmt.Errorf("%s expects %d arguments", name, len(d.Params))
		}
		sub := *e
		sub.vars = map[string]sval{}
		for k, v := range e.vars {
			sub.vars[k] = v
		}
		for i, p := range d.Params {
			a, err := e.eval(n.Args[i])
			if err != nil {
				return sval{}, err
			}
			sub.vars[p] = a
		}
		ex, err := parseSpec(d.Body)
		if err != nil {
			return sval{}, fmt.Errorf("define %s: %v", name, err)
		}
		return sub.eval(ex)
	}
	// theory function
	if sig, ok := x.p.Theory.Funs[name]; ok {
		x.needTheory = true
		if len(sig.Args) != len(n.Args) {
			return sval{}, fmt.Errorf("%s expects %d arguments", name, len(sig.Args))
		}
		var args []T
		for i := range n.Args {
			a, err := e.eval(n.Args[i])
			if err != nil {
				return sval{}, err
			}
			want := sig.Args[i]
			if want == "INTSORT" {
				want = x.intSort()
			}
			t, err := e.coerceTo(a, want)
			if err != nil {
				return sval{}, fmt.Errorf("%s arg %d: %v", name, i, err)
			}
			args = append(args, t)
		}
		ret := sig.Ret
		if ret == "INTSORT" {
			ret = x.intSort()
		}
		var gt types.Type
		switch ret {
		case SBool:
			gt = boolT
		case SFloat:
			gt = types.Typ[types.Float64]
		case SStr:
			gt = types.Typ[types.String]
		}
		if len(args) == 0 {
			return sval{v: scalar(T{name, ret}), typ: gt}, nil
		}
		return sval{v: scalar(mk(ret, name, args...)), typ: gt}, nil
	}
	return sval{}, fmt.Errorf("unknown spec function %s", name)
}

func (e *specEnv) coerceTo(a sval, want Sort) (T, error) {
	if a.lit != nil {
		switch want {
		case SInt:
			return e.coerce(a, sval{v: scalar(T{"0", SInt})})
		case SBV64:
			return BVLit(uint64(a.lit.Int64()), 64), nil
		case SBV32:
			return BVLit(uint64(a.lit.Int64()), 32), nil
		case SFloat:
			f, _ := new(big.Float).SetInt(a.lit).Float64()
			return FloatLit(f), nil
		}
		return T{}, fmt.Errorf("literal for sort %s", want)
	}
	if a.isNil {
		if want == SIface {
			return T{"inil", SIface}, nil
		}
		return IntLit(0), nil
	}
	if a.v.K != vScalar {
		return T{}, fmt.Errorf("composite argument")
	}
	if a.v.T.Sort != want {
		return T{}, fmt.Errorf("sort %s, want %s", a.v.T.Sort, want)
	}
	return a.v.T, nil
}

func exprString(e ast.Expr) string {
	switch n := e.(type) {
	case *ast.Ident:
		return n.Name
	case *ast.StarExpr:
		return "*" + exprString(n.X)
	case *ast.SelectorExpr:
		return exprString(n.X) + "." + n.Sel.Name
	}
	return fmt.Sprintf("%T", e)
}

// modifiesAllows decides whether a `modifies` entry covers a write to (target, key).
// Entries: "x.f" (one field of one object), "x.*" (every field of object x), "cell(x)" , "heap(KEY)".
func (e *specEnv) modifiesAllows(entry string, target T, key string) (T, bool) {
	entry = strings.TrimSpace(entry)
	if strings.HasPrefix(entry, "heap(") {
		k := strings.TrimSuffix(strings.TrimPrefix(entry, "heap("), ")")
		if k == key || strings.HasSuffix(k, "*") && strings.HasPrefix(key, strings.TrimSuffix(k, "*")) {
			return TTrue, true
		}
		return T{}, false
	}
	if i := strings.LastIndex(entry, "."); i > 0 {
		obj, fld := entry[:i], entry[i+1:]
		v, err := e.evalVal(obj)
		if err != nil || v.v.K != vScalar {
			return T{}, false
		}
		ref := v.v.T
		if ref.Sort == SIface {
			ref = mk(SInt, "iptr", ref)
		}
		if fld == "*" || strings.HasSuffix(key, "."+fld) {
			return Eq(ref, target), true
		}
		return T{}, false
	}
	return T{}, false
}
