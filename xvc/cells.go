package main

// Captured local variables live in heap cells. A cell whose address never escapes
// (only loaded, stored, and captured by closures) gets a heap key of its own, and a
// cell that is written exactly once (its initialisation) is immutable.

import (
	"fmt"
	"go/token"
	"go/types"

	"golang.org/x/tools/go/ssa"
)

type cellInfo struct {
	key       string
	immutable bool
}

func (p *Program) cellOf(a *ssa.Alloc) *cellInfo {
	if p.cells == nil {
		p.cells = map[*ssa.Alloc]*cellInfo{}
	}
	if ci, ok := p.cells[a]; ok {
		return ci
	}
	var ci *cellInfo
	defer func() { p.cells[a] = ci }()
	et := a.Type().(*types.Pointer).Elem()
	switch et.Underlying().(type) {
	case *types.Struct, *types.Array:
		return nil
	}
	stores := 0
	ok := true
	var visit func(v ssa.Value, depth int)
	visit = func(v ssa.Value, depth int) {
		for _, r := range *v.Referrers() {
			switch r := r.(type) {
			case *ssa.Store:
				if r.Addr == v {
					stores++
				} else {
					ok = false // the address itself is stored somewhere
				}
			case *ssa.UnOp, *ssa.DebugRef:
			case *ssa.MakeClosure:
				fn := r.Fn.(*ssa.Function)
				for i, b := range r.Bindings {
					if b == v && depth < 4 {
						visit(fn.FreeVars[i], depth+1)
					}
				}
			default:
				ok = false
			}
		}
	}
	visit(a, 0)
	if !ok {
		return nil
	}
	idx := 0
	for _, b := range a.Parent().Blocks {
		for _, in := range b.Instrs {
			if in == a {
				goto found
			}
			if _, isA := in.(*ssa.Alloc); isA {
				idx++
			}
		}
	}
found:
	ci = &cellInfo{key: fmt.Sprintf("C@%s.%s#%d", p.Names[a.Parent()], a.Comment, idx), immutable: stores <= 1}
	return ci
}

// cellOfFreeVar resolves a closure's free variable to the Alloc it is bound to at every creation site.
func (p *Program) cellOfFreeVar(fv *ssa.FreeVar) *cellInfo {
	fn := fv.Parent()
	parent := fn.Parent()
	if parent == nil {
		return nil
	}
	idx := -1
	for i, v := range fn.FreeVars {
		if v == fv {
			idx = i
		}
	}
	var found *cellInfo
	for _, b := range parent.Blocks {
		for _, in := range b.Instrs {
			mc, ok := in.(*ssa.MakeClosure)
			if !ok || mc.Fn != fn {
				continue
			}
			var ci *cellInfo
			switch bv := mc.Bindings[idx].(type) {
			case *ssa.Alloc:
				ci = p.cellOf(bv)
			case *ssa.FreeVar:
				ci = p.cellOfFreeVar(bv)
			}
			if ci == nil {
				return nil
			}
			if found != nil && found != ci {
				return nil
			}
			found = ci
		}
	}
	return found
}

func (p *Program) immutableKey(key string) bool {
	for _, ci := range p.cells {
		if ci != nil && ci.key == key {
			return ci.immutable
		}
	}
	return false
}

// allocOfFreeVar follows a free variable through the closure nesting to the Alloc it is bound to
// (nil when the creation sites disagree or bind something else).
func (p *Program) allocOfFreeVar(fv *ssa.FreeVar) *ssa.Alloc {
	fn := fv.Parent()
	parent := fn.Parent()
	if parent == nil {
		return nil
	}
	idx := -1
	for i, v := range fn.FreeVars {
		if v == fv {
			idx = i
		}
	}
	var found *ssa.Alloc
	for _, b := range parent.Blocks {
		for _, in := range b.Instrs {
			mc, ok := in.(*ssa.MakeClosure)
			if !ok || mc.Fn != fn {
				continue
			}
			var a *ssa.Alloc
			switch bv := mc.Bindings[idx].(type) {
			case *ssa.Alloc:
				a = bv
			case *ssa.FreeVar:
				a = p.allocOfFreeVar(bv)
			}
			if a == nil || found != nil && found != a {
				return nil
			}
			found = a
		}
	}
	return found
}

// stableCaptures: every variable fn captures is assigned only by the function that declares it, and
// only before the first closure over it is made there (so what a closure reads from it later is what
// was in it when the closure was made). Returns the reason when that is not so.
func (p *Program) stableCaptures(fn *ssa.Function) string {
	for _, fv := range fn.FreeVars {
		a := p.allocOfFreeVar(fv)
		if a == nil {
			return "captured variable " + fv.Name() + " is not bound to one local variable"
		}
		firstClosure := token.NoPos
		bad := ""
		var visit func(v ssa.Value, depth int)
		visit = func(v ssa.Value, depth int) {
			for _, r := range *v.Referrers() {
				switch r := r.(type) {
				case *ssa.Store:
					if r.Addr != v {
						bad = "the address of " + fv.Name() + " escapes"
					} else if depth > 0 {
						bad = fv.Name() + " is assigned inside a closure"
					}
				case *ssa.UnOp, *ssa.DebugRef:
				case *ssa.MakeClosure:
					if depth == 0 && (firstClosure == token.NoPos || r.Pos() < firstClosure) {
						firstClosure = r.Pos()
					}
					cf := r.Fn.(*ssa.Function)
					for i, b := range r.Bindings {
						if b == v && depth < 4 {
							visit(cf.FreeVars[i], depth+1)
						}
					}
				default:
					bad = "the address of " + fv.Name() + " escapes"
				}
			}
		}
		visit(a, 0)
		if bad != "" {
			return bad
		}
		for _, r := range *a.Referrers() {
			if st, ok := r.(*ssa.Store); ok && st.Addr == a && firstClosure != token.NoPos && st.Pos() > firstClosure {
				return fv.Name() + " is assigned after a closure over it has been made"
			}
		}
	}
	return ""
}
