package main

// Assumed contracts on the standard library and on the client-supplied NodeNavigator.
// Every model used is recorded in x.assumed and ends up in the evidence file.

import (
	"fmt"
	"go/types"
	"strings"

	"golang.org/x/tools/go/ssa"
)

func (x *Exec) stdlib(s *State, in *ssa.Call, f *ssa.Function, args []Val) Val {
	name := f.String()
	if f.Signature.Recv() != nil {
		name = "(" + typeStr(f.Signature.Recv().Type()) + ")." + f.Name()
	}
	x.assumed["stdlib: "+name] = true
	res := f.Signature.Results()
	fresh := func() Val { return x.resultVal(s, in, res) }
	sfun := func(fn string, ret Sort, as ...T) T {
		if _, declared := x.p.Theory.Funs[fn]; declared {
			return mk(ret, fn, as...)
		}
		sig := "("
		for i, a := range as {
			if i > 0 {
				sig += " "
			}
			sig += string(a.Sort)
		}
		sig += ") " + string(ret)
		x.declFun(s, fn, sig)
		return mk(ret, fn, as...)
	}
	switch name {
	case "math.Round":
		return scalar(mk(SFloat, "fp.roundToIntegral RNA", args[0].T))
	case "math.Floor":
		return scalar(mk(SFloat, "fp.roundToIntegral RTN", args[0].T))
	case "math.Ceil":
		return scalar(mk(SFloat, "fp.roundToIntegral RTP", args[0].T))
	case "math.Abs":
		return scalar(mk(SFloat, "fp.abs", args[0].T))
	case "math.NaN":
		return scalar(T{"(_ NaN 11 53)", SFloat})
	case "math.IsNaN":
		return scalar(mk(SBool, "fp.isNaN", args[0].T))
	case "math.Mod":
		// assumed: a deterministic function; NaN when the divisor is zero or an operand is NaN;
		// for finite operands with y != 0 the result r has |r| < |y| and the sign of x (or is zero)
		a, b := args[0].T, args[1].T
		r := x.define(s, "mod", sfun("fmod_", SFloat, a, b))
		s.assume(Implies(Or(mk(SBool, "fp.isNaN", a), mk(SBool, "fp.isNaN", b), mk(SBool, "fp.isZero", b), mk(SBool, "fp.isInfinite", a)), mk(SBool, "fp.isNaN", r)))
		fin := And(Not(mk(SBool, "fp.isNaN", a)), Not(mk(SBool, "fp.isNaN", b)), Not(mk(SBool, "fp.isInfinite", a)), Not(mk(SBool, "fp.isZero", b)))
		s.assume(Implies(fin, And(Not(mk(SBool, "fp.isNaN", r)), Not(mk(SBool, "fp.isInfinite", r)))))
		s.assume(Implies(And(fin, Not(mk(SBool, "fp.isInfinite", b))), mk(SBool, "fp.lt", mk(SFloat, "fp.abs", r), mk(SFloat, "fp.abs", b))))
		return scalar(r)
	case "strconv.ParseFloat":
		// deterministic (value, ok) function of the string
		str := args[0].T
		v := sfun("parsefloat_val", SFloat, str)
		ok := sfun("parsefloat_ok", SBool, str)
		errv := x.fresh(s, "perr", SIface)
		s.assume(mk(SBool, "=", ok, Eq(errv, T{"inil", SIface})))
		return Val{K: vTuple, Parts: []Val{scalar(v), scalar(errv)}}
	case "strconv.FormatFloat":
		// FormatFloat(v, 'f', -1, 64) is the theory function fmtf_ (shortest plain decimal); any other
		// format is some other function of the value
		cargs := in.Common().Args
		isConst := func(i int, want int64) bool {
			c, ok := cargs[i].(*ssa.Const)
			return ok && c.Value != nil && c.Int64() == want
		}
		if len(cargs) == 4 && isConst(1, 'f') && isConst(2, -1) && isConst(3, 64) {
			return scalar(sfun("fmtf_", SStr, args[0].T))
		}
		return scalar(sfun("formatfloat_other_", SStr, args[0].T, args[1].T, args[2].T))
	case "strconv.Itoa":
		return scalar(sfun("itoa_", SStr, args[0].T))
	case "strings.HasPrefix":
		return scalar(sfun("str_hasprefix", SBool, args[0].T, args[1].T))
	case "strings.HasSuffix":
		return scalar(sfun("str_hassuffix", SBool, args[0].T, args[1].T))
	case "strings.Contains":
		return scalar(sfun("str_contains", SBool, args[0].T, args[1].T))
	case "strings.Index":
		r := x.define(s, "index", sfun("str_index", x.intSort(), args[0].T, args[1].T))
		la, lb := x.strLen(s, args[0].T), x.strLen(s, args[1].T)
		m1 := x.ilit(-1)
		s.assume(And(x.le(m1, r), Implies(x.le(x.ilit(0), r), And(x.le(lb, la), x.le(r, x.sub(la, lb))))))
		return scalar(r)
	case "strings.TrimSpace":
		r := x.define(s, "trim", sfun("str_trimspace", SStr, args[0].T))
		s.assume(x.le(x.strLen(s, r), x.strLen(s, args[0].T)))
		return scalar(r)
	case "strings.ToLower":
		return scalar(sfun("str_tolower", SStr, args[0].T))
	case "(*regexp.Regexp).ReplaceAllString":
		return scalar(sfun("re_replace", SStr, args[0].T, args[1].T, args[2].T))
	case "(*strings.Replacer).Replace":
		// the result is a function of the pair list the Replacer was built from and of the subject
		if rec, ok := s.replacers[args[0].T.S]; ok && len(args) == 2 {
			x.needTheory = true
			return scalar(mk(SStr, "repl_apply", rec[0], rec[1], rec[2], args[1].T))
		}
		return x.freshVal(s, "str", types.Typ[types.String])
	case "fmt.Sprintf":
		x.formatsPackageStringer(s, in)
		return x.freshVal(s, "str", types.Typ[types.String])
	case "strings.Join", "strings.ReplaceAll", "(*bytes.Buffer).String":
		return x.freshVal(s, "str", types.Typ[types.String])
	case "strings.NewReplacer", "hash/fnv.New64a":
		r := x.alloc(s, "obj")
		if name == "strings.NewReplacer" && len(args) == 1 && args[0].K == vSlice {
			// a Replacer keeps the pair list as it is now (NewReplacer copies it)
			is := x.intSort()
			inner := Select(x.heapSym(s, "S:string", SArray(SInt, SArray(is, SStr))), args[0].Arr, SArray(is, SStr))
			if s.replacers == nil {
				s.replacers = map[string][3]T{}
			}
			s.replacers[r.S] = [3]T{x.define(s, "repl.pairs", inner), args[0].Off, args[0].Len}
		}
		if name == "hash/fnv.New64a" {
			bufs := x.heapSym(s, "ghost:buf", SArray(SInt, SStr))
			s.assume(Eq(Select(bufs, r, SStr), T{"str.empty", SStr})) // nothing written yet
		}
		if isIface(res.At(0).Type()) {
			return scalar(mk(SIface, "iref", IntLit(int64(x.p.tag(types.Typ[types.UnsafePointer]))), r))
		}
		return scalar(r)
	case "errors.New", "fmt.Errorf":
		x.formatsPackageStringer(s, in)
		r := x.alloc(s, "err")
		return scalar(mk(SIface, "iref", IntLit(9999), r))
	case "(*bytes.Buffer).WriteString", "(*bytes.Buffer).WriteByte":
		// the content of a buffer is the ghost string buf(b)
		x.sharedBuilderCheck(s, in, args[0].T)
		bufs := x.heapSym(s, "ghost:buf", SArray(SInt, SStr))
		cur := Select(bufs, args[0].T, SStr)
		piece := args[1].T
		if name == "(*bytes.Buffer).WriteByte" {
			if c, ok := in.Common().Args[1].(*ssa.Const); ok && c.Value != nil {
				piece = x.strLit(s, string(rune(c.Int64())))
			} else {
				piece = sfun("bytestr_", SStr, args[1].T)
			}
		}
		x.heapSet(s, "ghost:buf", Store(bufs, args[0].T, x.strCat(s, cur, piece)))
		return fresh()
	case "(*bytes.Buffer).Write":
		x.sharedBuilderCheck(s, in, args[0].T)
		x.havocKey(s, "ghost:buf")
		return fresh()
	case "(*bytes.Buffer).Bytes":
		// the bytes of the buffer: a slice whose content, read as a string, is buf(b)
		r := fresh()
		if r.K == vSlice {
			bufs := x.heapSym(s, "ghost:buf", SArray(SInt, SStr))
			s.assume(Eq(sfun("bytes_str", SStr, r.Arr), Select(bufs, args[0].T, SStr)))
		}
		return r
	case "(*regexp.Regexp).MatchString":
		return scalar(sfun("re_match", SBool, args[0].T, args[1].T))
	case "(*regexp.Regexp).NumSubexp":
		r := x.define(s, "nsub", sfun("regexp.NumSubexp_", x.intSort(), args[0].T))
		s.assume(And(x.le(x.ilit(0), r), x.le(r, x.ilit(1<<20))))
		return scalar(r)
	case "regexp.Compile":
		re := sfun("regexp.Compile.val_", SInt, args[0].T)
		ok := sfun("regexp.Compile.ok_", SBool, args[0].T)
		errv := x.fresh(s, "rerr", SIface)
		s.assume(mk(SBool, "=", ok, Eq(errv, T{"inil", SIface})))
		s.assume(Implies(ok, mk(SBool, ">", re, IntLit(0))))
		rv := x.define(s, "re", Ite(ok, re, IntLit(0)))
		return Val{K: vTuple, Parts: []Val{scalar(rv), scalar(errv)}}
	case "(*sync.Pool).Get":
		// assumed: returns what New returns (a non-nil stringBuilder here), possibly recycled
		r := x.alloc(s, "pooled")
		x.assumed["sync.Pool.Get returns a value produced by New (builderPool: *strings.Builder, which implements stringBuilder)"] = true
		tag := IntLit(int64(x.p.tagByName("*strings.Builder")))
		if sb := x.p.lookupType("stringBuilder"); sb != nil {
			s.assume(mk(SBool, "impl", tag, IntLit(int64(x.p.iface(sb)))))
		}
		// pool protocol: whatever is put back is empty (checked at Put), and New makes an empty one
		x.assumed["sync.Pool: New returns an empty builder (zero strings.Builder); Get returns a New or a Put value"] = true
		bufs := x.heapSym(s, "ghost:buf", SArray(SInt, SStr))
		s.assume(Eq(Select(bufs, r, SStr), T{"str.empty", SStr}))
		// what Get hands out is out of the pool until it is put back
		inp := x.heapSym(s, "ghost:inpool", SArray(SInt, SBool))
		x.heapSet(s, "ghost:inpool", Store(inp, r, TFalse))
		return scalar(mk(SIface, "iref", tag, r))
	case "(*sync.Pool).Put":
		x.poolPut(s, in, args)
		return Val{K: vNone}
	case "(*sync.RWMutex).RLock", "(*sync.RWMutex).RUnlock", "(*sync.RWMutex).Lock", "(*sync.RWMutex).Unlock":
		x.lockOp(s, in, f.Name(), args[0])
		return Val{K: vNone}
	case "reflect.ValueOf":
		return scalar(args[0].T) // reflect.Value modelled as the interface value it wraps
	case "(reflect.Value).Kind":
		return scalar(x.reflectKind(s, args[0].T))
	case "(reflect.Value).Bool":
		return scalar(mk(SBool, "ibv", args[0].T))
	case "(reflect.Value).Float":
		return scalar(mk(SFloat, "ifv", args[0].T))
	case "(reflect.Value).String":
		return scalar(mk(SStr, "isv", args[0].T))
	case "unicode.IsSpace", "unicode.IsDigit", "unicode.Is":
		as := []T{}
		for _, a := range args {
			if a.K == vScalar {
				as = append(as, a.T)
			}
		}
		r := sfun(strings.ReplaceAll(name, "/", ".")+"_", SBool, as...)
		if name == "unicode.IsSpace" && len(as) == 1 && as[0].Sort == SBV32 {
			// facts of the library: the four XPath whitespace characters are spaces, NUL is not
			for _, c := range []uint64{0x20, 0x09, 0x0a, 0x0d} {
				s.assume(Implies(Eq(as[0], BVLit(c, 32)), r))
			}
			s.assume(Implies(Eq(as[0], BVLit(0, 32)), Not(r)))
		}
		if name == "unicode.Is" && len(as) >= 1 && as[len(as)-1].Sort == SBV32 {
			// fact about the two tables the package asks about (parse.go: `first` starts at U+003A,
			// `second` at U+002D): '*' (U+002A) is in neither
			x.assumed["unicode.Is(first|second, '*') is false: both name-character tables of parse.go start above U+002A"] = true
			s.assume(Implies(Eq(as[len(as)-1], BVLit(0x2A, 32)), Not(r)))
		}
		if (name == "unicode.IsDigit" || name == "unicode.Is") && len(as) >= 1 && as[len(as)-1].Sort == SBV32 {
			// fact of the library: NUL is in none of the tables the package asks about (digits, letters, name characters)
			s.assume(Implies(Eq(as[len(as)-1], BVLit(0, 32)), Not(r)))
		}
		return scalar(r)
	case "unicode/utf8.DecodeRuneInString":
		r := x.freshVal(s, "rune", types.Typ[types.Rune])
		sz := x.fresh(s, "rsize", x.intSort())
		l := x.strLen(s, args[0].T)
		s.assume(And(x.le(x.ilit(0), sz), x.le(sz, x.ilit(4)), x.le(sz, l), Implies(x.lt(x.ilit(0), l), x.le(x.ilit(1), sz))))
		return Val{K: vTuple, Parts: []Val{r, scalar(sz)}}
	}
	if strings.HasSuffix(name, ".init") {
		return Val{K: vNone}
	}
	x.unsupported("no model for library function %s", name)
	return fresh()
}

func (p *Program) tagByName(s string) int {
	if id, ok := p.tagOf[s]; ok {
		return id
	}
	id := len(p.tagOf) + 1
	p.tagOf[s] = id
	return id
}

func (x *Exec) ghostBump(s *State, key string) {}

// reflectKind: table from dynamic type to reflect.Kind for the types the package inspects.
func (x *Exec) reflectKind(s *State, v T) T {
	k := func(n int64) T { return BVLit(uint64(n), 64) }
	if x.mode == "int" {
		k = func(n int64) T { return IntLit(n) }
	}
	// reflect.Kind: Invalid 0, Bool 1, Int 2, Float64 14, String 24, Ptr 22, Func 19, Struct 25 ...
	other := x.fresh(s, "kind", x.intSort())
	s.assume(And(Not(Eq(other, k(1))), Not(Eq(other, k(14))), Not(Eq(other, k(24))), Not(Eq(other, k(0)))))
	return Ite(Eq(v, T{"inil", SIface}), k(0),
		Ite(mk(SBool, "(_ is ibool)", v), k(1),
			Ite(mk(SBool, "(_ is iflt)", v), k(14),
				Ite(mk(SBool, "(_ is istr)", v), k(24),
					Ite(mk(SBool, "(_ is iint)", v), k(2), other)))))
}

// lockOp maintains the ghost lock state and emits the lock-discipline obligations.
func (x *Exec) lockOp(s *State, in ssa.Instruction, op string, mu Val) {
	key := mu.Key + "@" + mu.Base.S
	cur := s.locks[key]
	lab := x.label(in)
	switch op {
	case "RLock":
		x.obligeB(s, "locks", lab, cur == "", in)
		s.locks[key] = "R"
		x.lockAcquire(s, mu)
	case "Lock":
		x.obligeB(s, "locks", lab, cur == "", in)
		s.locks[key] = "W"
		x.lockAcquire(s, mu)
	case "RUnlock":
		x.obligeB(s, "locks", lab, cur == "R", in)
		s.locks[key] = ""
	case "Unlock":
		x.obligeB(s, "locks", lab, cur == "W", in)
		x.lockRelease(s, in)
		s.locks[key] = ""
	}
}

func (x *Exec) obligeB(s *State, kind, site string, ok bool, in ssa.Instruction) {
	x.oblige(s, kind, site, Bool(ok), in.Pos(), nil)
}

// lockAcquire: other goroutines may have run; state guarded by the lock is re-read under its invariant.
func (x *Exec) lockAcquire(s *State, mu Val) {
	if x.fnc == nil {
		return
	}
	for _, cl := range x.fnc.clauses("assume") {
		if cl.Label != "on-lock" {
			continue
		}
	}
	// havoc the guarded fields named by `guards` modifies-like entries, then assume the lock invariant
	for _, g := range x.fnc.Guards {
		env := x.specEnvFor(s, "guards")
		x.havocEntry(s, env, g)
	}
	for _, cl := range x.fnc.clauses("lockinv") {
		env := x.specEnvFor(s, "lock invariant")
		t, err := env.evalBool(cl.Expr)
		if err != nil {
			x.unsupported("lockinv: %v", err)
			continue
		}
		s.assume(t)
	}
}

// lockRelease: the writer hands the guarded state back satisfying the lock invariant.
func (x *Exec) lockRelease(s *State, in ssa.Instruction) {
	if x.fnc == nil {
		return
	}
	for i, cl := range x.fnc.clauses("lockinv") {
		env := x.specEnvFor(s, "lock invariant")
		t, err := env.evalBool(cl.Expr)
		if err != nil {
			x.unsupported("lockinv: %v", err)
			continue
		}
		x.oblige(s, "lockinv-restored", x.label(in)+"#"+clauseLabel(cl, i), t, in.Pos(), cl.Props)
	}
}

// guardedAccess: an access to a lock-guarded field must happen with the lock held.
func (x *Exec) heldMode(s *State) string {
	m := ""
	for _, v := range s.locks {
		if v == "W" {
			return "W"
		}
		if v == "R" {
			m = "R"
		}
	}
	return m
}

// ---------------------------------------------------------------- NodeNavigator

func (x *Exec) navPosArr(s *State) T { return x.heapSym(s, "navpos", SArray(SInt, SPos)) }

func (x *Exec) navCall(s *State, in *ssa.Call, recv Val, args []Val, m string) Val {
	x.assumed["navigator theory: NodeNavigator."+m] = true
	ref := mk(SInt, "iptr", recv.T)
	arr := x.navPosArr(s)
	pos := x.define(s, "pos", Select(arr, ref, SPos))
	setPos := func(np T) { x.heapSet(s, "navpos", Store(arr, ref, np)) }
	tf := func(name string, ret Sort, as ...T) T { return mk(ret, name, as...) }
	kind := tf("kind", SInt, pos)
	isAttr := Eq(kind, IntLit(2))
	one := IntLit(1)
	mvResult := func(b T, np T) Val {
		bc := x.define(s, "moved", b)
		setPos(Ite(bc, np, pos))
		return scalar(bc)
	}
	switch m {
	case "NodeType":
		r := mk(x.intSort(), "nodetype_", pos)
		if x.mode == "int" {
			s.assume(Eq(r, kind))
		} else {
			for k := int64(0); k <= 4; k++ {
				s.assume(Implies(Eq(kind, IntLit(k)), Eq(r, BVLit(uint64(k), 64))))
			}
		}
		return scalar(r)
	case "LocalName":
		return scalar(tf("nav_local", SStr, pos))
	case "Prefix":
		return scalar(tf("nav_prefix", SStr, pos))
	case "Value":
		return scalar(tf("nav_value", SStr, pos))
	case "Copy":
		r := x.alloc(s, "navcopy")
		res := mk(SIface, "iref", mk(SInt, "dyntag", recv.T), r)
		arr2 := x.navPosArr(s)
		x.heapSet(s, "navpos", Store(arr2, r, pos))
		s.assume(mk(SBool, "impl", mk(SInt, "dyntag", recv.T), IntLit(int64(x.p.iface(x.p.lookupType("NodeNavigator"))))))
		cp := x.define(s, "copy", res)
		if len(s.frames) == 1 {
			s.navCopies = append(s.navCopies, cp)
		}
		return scalar(cp)
	case "MoveToRoot":
		// from a tree node: the root of its document. From an attribute position the result is not
		// specified: navigators in the wild (the test-suite's, xmlquery, htmlquery) keep the
		// attribute index and end up on "an attribute of the root"
		un := x.fresh(s, "root.from.attribute", SPos)
		setPos(Ite(isAttr, un, tf("rootof", SPos, pos)))
		return Val{K: vNone}
	case "MoveToParent":
		return mvResult(Not(tf("isroot", SBool, pos)), tf("parent", SPos, pos))
	case "MoveToChild":
		return mvResult(And(Not(isAttr), mk(SBool, ">", tf("nch", SInt, pos), IntLit(0))), tf("child", SPos, pos, one))
	case "MoveToNext":
		par := tf("parent", SPos, pos)
		i := tf("idx", SInt, pos)
		return mvResult(And(Not(isAttr), Not(tf("isroot", SBool, pos)), mk(SBool, "<", i, tf("nch", SInt, par))), tf("child", SPos, par, mk(SInt, "+", i, one)))
	case "MoveToPrevious":
		par := tf("parent", SPos, pos)
		i := tf("idx", SInt, pos)
		return mvResult(And(Not(isAttr), Not(tf("isroot", SBool, pos)), mk(SBool, ">", i, one)), tf("child", SPos, par, mk(SInt, "-", i, one)))
	case "MoveToFirst":
		par := tf("parent", SPos, pos)
		i := tf("idx", SInt, pos)
		return mvResult(And(Not(isAttr), Not(tf("isroot", SBool, pos)), mk(SBool, ">", i, one)), tf("child", SPos, par, one))
	case "MoveToNextAttribute":
		own := tf("parent", SPos, pos)
		ai := tf("aidx", SInt, pos)
		fromElem := And(Not(isAttr), mk(SBool, ">", tf("natt", SInt, pos), IntLit(0)))
		fromAttr := And(isAttr, mk(SBool, "<", ai, tf("natt", SInt, own)))
		np := Ite(isAttr, tf("attr", SPos, own, mk(SInt, "+", ai, one)), tf("attr", SPos, pos, one))
		return mvResult(Or(fromElem, fromAttr), np)
	case "MoveTo":
		b := x.fresh(s, "moveto.ok", SBool)
		other := Select(arr, mk(SInt, "iptr", args[0].T), SPos)
		// assumed: succeeds exactly when both navigators walk the same document
		s.assume(mk(SBool, "=", b, Eq(tf("rootof", SPos, pos), tf("rootof", SPos, other))))
		setPos(Ite(b, other, pos))
		return scalar(b)
	}
	x.unsupported("navigator method %s", m)
	return x.resultVal(s, in, in.Common().Method.Type().(*types.Signature).Results())
}

func init() { _ = fmt.Sprint }

// sharedBuilderCheck: an XPath function closure is shared by every evaluation (and every clone) of the
// compiled expression, so a buffer it writes must be one it obtained during this call.
func (x *Exec) sharedBuilderCheck(s *State, in *ssa.Call, ref T) {
	if x.fnc != nil && len(s.frames) == 1 && (x.fnc.Conforms == "functionQuery.Func" || x.fnc.Conforms == "transformFunctionQuery.Func") {
		x.oblige(s, "frame", "shared-builder:"+x.label(in), x.freshTerm(s, ref), in.Pos(), []string{"C04", "C05"})
	}
}

// poolPut: (*sync.Pool).Put(b), also when deferred. What goes back into the pool must be empty (the
// next Get hands it out as it is) and must not be in the pool already (or two callers would be
// handed the same object).
func (x *Exec) poolPut(s *State, in ssa.Instruction, args []Val) {
	if len(args) == 2 && args[1].K == vScalar && args[1].T.Sort == SIface {
		ref := mk(SInt, "iptr", args[1].T)
		bufs := x.heapSym(s, "ghost:buf", SArray(SInt, SStr))
		x.oblige(s, "call-requires", x.label(in)+"/pooled-builder-empty", Eq(Select(bufs, ref, SStr), T{"str.empty", SStr}), in.Pos(), []string{"C09"})
		inp := x.heapSym(s, "ghost:inpool", SArray(SInt, SBool))
		x.oblige(s, "call-requires", x.label(in)+"/put-once", Not(Select(inp, ref, SBool)), in.Pos(), []string{"C05", "C09"})
		x.heapSet(s, "ghost:inpool", Store(inp, ref, TTrue))
	}
}

// formatsPackageStringer: fmt formats an operand that has a String() or Error() method by calling it.
// For a type of this package that is a call into package code which no contract covers (the String
// methods of the parse-tree nodes recurse over a tree of unbounded depth): on the compile path that
// is a termination/stack obligation nobody has discharged.
func (x *Exec) formatsPackageStringer(s *State, in *ssa.Call) {
	c := in.Common()
	if len(c.Args) < 2 {
		return
	}
	sl, ok := c.Args[len(c.Args)-1].(*ssa.Slice)
	if !ok {
		return
	}
	al, ok := sl.X.(*ssa.Alloc)
	if !ok {
		return
	}
	for _, ref := range *al.Referrers() {
		ia, ok := ref.(*ssa.IndexAddr)
		if !ok {
			continue
		}
		for _, r2 := range *ia.Referrers() {
			st, ok := r2.(*ssa.Store)
			if !ok || st.Addr != ia {
				continue
			}
			mi, ok := st.Val.(*ssa.MakeInterface)
			if !ok {
				continue
			}
			t := mi.X.Type()
			for _, mn := range []string{"String", "Error"} {
				sel := x.p.SSA.Prog.MethodSets.MethodSet(t).Lookup(x.p.SSA.Pkg, mn)
				if sel == nil {
					sel = x.p.SSA.Prog.MethodSets.MethodSet(t).Lookup(nil, mn)
				}
				if sel == nil {
					continue
				}
				fn := x.p.SSA.Prog.MethodValue(sel)
				if fn == nil || fn.Pkg != x.p.SSA {
					continue
				}
				if fc := x.contractOf(fn); fc != nil && len(fc.clauses("rdecreases")) > 0 {
					continue // the method has a recursion measure of its own
				}
				x.oblige(s, "termination", x.label(in)+"/formats:"+typeStr(t)+"."+mn, TFalse, in.Pos(), []string{"C06", "C15"})
			}
		}
	}
}
