package main

// defer / recover: modelled for functions that install a recovering closure (build).

import (
	"golang.org/x/tools/go/ssa"
)

// runDefers executes the deferred calls on the normal path (no panic in flight), then resumes.
func (x *Exec) runDefers(s *State, b *ssa.BasicBlock, next int, k cont) {
	fr := s.top()
	ds := fr.defers
	fr.defers = nil
	x.runDeferList(s, ds, len(ds)-1, func(s2 *State) {
		x.execFrom(s2, b, next, k)
	})
}

func (x *Exec) runDeferList(s *State, ds []*ssa.Defer, i int, then func(*State)) {
	if i < 0 {
		then(s)
		return
	}
	d := ds[i]
	c := d.Common()
	mc, ok := c.Value.(*ssa.MakeClosure)
	var fn *ssa.Function
	var binds []Val
	if ok {
		fn = mc.Fn.(*ssa.Function)
		for _, bv := range mc.Bindings {
			binds = append(binds, x.valueOf(s, bv))
		}
	} else if f, ok2 := c.Value.(*ssa.Function); ok2 {
		fn = f
	}
	var args []Val
	for _, a := range c.Args {
		args = append(args, x.valueOf(s, a))
	}
	if fn != nil && fn.Pkg != x.p.SSA && x.p.Names[fn] == "" {
		// deferred library call: only the mutex operations occur
		name := fn.Name()
		if r := fn.Signature.Recv(); r != nil && typeStr(r.Type()) == "*sync.RWMutex" && len(args) == 1 {
			x.lockOp(s, d, name, args[0])
		} else if fn.String() == "(*sync.Pool).Put" {
			x.poolPut(s, d, args)
		} else {
			x.unsupported("deferred library call %s", fn.String())
		}
		x.runDeferList(s, ds, i-1, then)
		return
	}
	if fn == nil {
		x.unsupported("deferred call of unknown function")
		then(s)
		return
	}
	x.execFunction(s, fn, args, binds, func(s2 *State, _ []Val) {
		x.runDeferList(s2, ds, i-1, then)
	})
}

// runDefersPanicking: a panic is in flight in the top frame; run its deferred calls, then either
// resume at the Recover block (recovered) or let the panic escape.
func (x *Exec) runDefersPanicking(s *State, k cont) {
	fr := s.top()
	ds := fr.defers
	fr.defers = nil
	depth := len(s.frames)
	x.runDeferList(s, ds, len(ds)-1, func(s2 *State) {
		fr2 := s2.frames[depth-1]
		if fr2.recovered {
			fr2.panicking = nil
			if fr2.fn.Recover != nil {
				x.execBlock(s2, fr2.fn.Recover, nil, k)
				return
			}
			// no named results: returns zero values
			var res []Val
			rt := fr2.fn.Signature.Results()
			for i := 0; i < rt.Len(); i++ {
				res = append(res, x.zero(s2, rt.At(i).Type()))
			}
			k(s2, res)
			return
		}
		x.panicEscapes(s2, fr2.fn)
	})
}

func (x *Exec) panicEscapes(s *State, f *ssa.Function) {
	fc := x.contractOf(f)
	if fc != nil && fc.NoPanic {
		x.oblige(s, "panic-escapes", x.p.Names[f], TFalse, f.Pos(), fc.Props)
	}
}

// mayPanicFork: after a call to a function that may panic, explore the path where it did.
func (x *Exec) mayPanicFork(s *State, callee string, k cont) {
	fr := s.top()
	if len(fr.defers) == 0 {
		return
	}
	s2 := s.clone()
	pv := x.fresh(s2, "panicval", SIface)
	// assumed: every panic value raised by the package or the runtime is non-nil (checked at each panic site: panic-nonnil)
	s2.assume(Not(Eq(pv, T{"inil", SIface})))
	v := scalar(pv)
	s2.top().panicking = &v
	s2.trail = append(s2.trail, "panic-from:"+callee)
	x.runDefersPanicking(s2, k)
}
