; Tier predicates of the XPath 1.0 expression grammar over parse-tree nodes (interface values).
; Their defining equations (over the immutable fields of operatorNode) are stated as `axiom`
; clauses in the contract file, because they read the heap.
(declare-fun tOr (Iface) Bool)
(declare-fun tAnd (Iface) Bool)
(declare-fun tEq (Iface) Bool)
(declare-fun tRel (Iface) Bool)
(declare-fun tAdd (Iface) Bool)
(declare-fun tMul (Iface) Bool)
(declare-fun tUnary (Iface) Bool)
(declare-fun tUnion (Iface) Bool)
(declare-fun tPath (Iface) Bool)
