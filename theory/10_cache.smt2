; Loading cache: what the (assumed deterministic) load function of cache c yields for key k.
(declare-fun loadval (Int Iface) Iface)
(declare-fun loadok (Int Iface) Bool)
