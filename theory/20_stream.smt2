; Ghost streams. The node sequence a query object q yields between two resets ("epoch" e) is
; described by history functions: slen(q,e) results, the i-th one at position spos(q,e,i).
; They are definitions of what was observed, not assumptions about the code: the engine updates
; the ghost counters k(q), epoch(q) at every Select/Evaluate call.
(declare-fun slen (Int Int) Int)
(declare-fun spos (Int Int Int) Pos)
(declare-fun itcur (Int) Iface)
(declare-fun parsefloat_val (Str) F64)
(declare-fun parsefloat_ok (Str) Bool)
(assert (forall ((q Int) (e Int)) (! (and (>= (slen q e) 0) (< (slen q e) 4611686018427387904)) :pattern ((slen q e)))))  ; a stream is finite (fewer than 2^62 nodes)
(declare-fun evalv (Int Int) Iface)
(declare-fun absb (Int) Bool)   ; "exhaustion of this query object is absorbing by construction" (defined per query type in the contract file)
