; Strings (C09). Library functions on strings are uninterpreted functions of their arguments
; (deterministic); the facts assumed about them are stated where they are called (xvc/stdlib.go).
(declare-fun str_hasprefix (Str Str) Bool)
(declare-fun str_hassuffix (Str Str) Bool)
(declare-fun str_contains (Str Str) Bool)
(declare-fun str_index (Str Str) INTSORT)
(declare-fun str_trimspace (Str) Str)
(declare-fun str_tolower (Str) Str)
