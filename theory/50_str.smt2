; Strings (C09). Library functions on strings are uninterpreted functions of their arguments
; (deterministic); the facts assumed about them are stated where they are called (xvc/stdlib.go).
(declare-fun str_hasprefix (Str Str) Bool)
(declare-fun str_hassuffix (Str Str) Bool)
(declare-fun str_contains (Str Str) Bool)
(declare-fun str_index (Str Str) INTSORT)
(declare-fun str_trimspace (Str) Str)
(declare-fun str_tolower (Str) Str)
(declare-fun bytes_str (Int) Str)        ; the content of a byte slice (by backing array), read as a string
(declare-fun fnv64a (Str) INTSORT)       ; FNV-1a, 64 bit, of a string's bytes
(declare-fun hkey (Str Pos) Str)         ; the ancestor-path part of a node identity key (instance keyStep)
(declare-fun itoa_ (INTSORT) Str)        ; strconv.Itoa
(declare-fun hashkey (Pos) INTSORT)      ; the identity key of a node: FNV-1a of its rendering (instance hashkeyDef)
(declare-fun re_match (Int Str) Bool)        ; (*regexp.Regexp).MatchString
(declare-fun re_replace (Int Str Str) Str)   ; (*regexp.Regexp).ReplaceAllString
; translate() (C09). chrstr_(c): string(rune(c)), the UTF-8 encoding of character code c (int-mode twin of runestr).
; repl_apply(pairs, off, n, s): strings.NewReplacer(pairs[off], ..., pairs[off+n-1]).Replace(s).
; xtranslate(s, a, b): XPath 1.0 translate(s, a, b) (4.2): every character of s that occurs in a, at first
; position j, is replaced by the j-th character of b, or removed when b has no j-th character; other
; characters stay. The link between the two (a Replacer over the pair list (a[j], b[j] or "") computes
; xtranslate) is the instance replacerTranslate in the contract file.
(declare-fun chrstr_ (INTSORT) Str)
(declare-fun repl_apply ((Array INTSORT Str) INTSORT INTSORT Str) Str)
(declare-fun xtranslate (Str Str Str) Str)
; normalize-space() (C09). rune_(s, i) / nrunes_(s): the i-th rune and the number of runes of s ([]rune(s)).
; nsAcc(s, i): the text normalize-space has produced after the first i runes of the trimmed string s
; (instances nsZero, nsStep in the contract file: a whitespace rune followed by another one is dropped,
; any other whitespace rune becomes one space, other runes are kept).
(declare-fun rune_ (Str INTSORT) Rune)
(declare-fun nrunes_ (Str) INTSORT)
(declare-fun nsAcc (Str INTSORT) Str)
