; Numbers (C08). fmod_ is math.Mod (C fmod: truncated remainder, sign of the dividend), the XPath mod
; operator; fmtf_ is strconv.FormatFloat(v, 'f', -1, 64), the shortest plain-decimal rendering;
; xnum is the XPath 1.0 number() of a string (4.4: optional whitespace, optional minus, Number).
(declare-fun fmod_ (F64 F64) F64)
(declare-fun fmtf_ (F64) Str)
(declare-fun xnum (Str) F64)
; ssum(q, e, i): the sum() of the first i nodes of stream (q, e), added left to right, a node whose
; string-value is not a number contributing nothing (defined by the axioms ssum-zero / ssum-step in
; the contract file, used only where sum() is verified).
(declare-fun ssum (Int Int Int) F64)
; runestr(r): the UTF-8 encoding of rune r as a string (strings.Builder.WriteRune)
(define-sort Rune () (_ BitVec 32))
(declare-fun runestr (Rune) Str)
; scnt(f, q, e, i): how many of the first i nodes of stream (q, e) pass test f (instances scntZero, scntStep)
(declare-fun scnt (Int Int Int Int) Int)
