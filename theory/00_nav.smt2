; Navigator theory: the assumed contract on the client's NodeNavigator (DESIGN 2.5).
; Pos = a cursor position (tree node or attribute of an element).
(declare-sort Pos 0)
(declare-fun kind (Pos) Int)      ; 0 root 1 element 2 attribute 3 text 4 comment
(declare-fun isroot (Pos) Bool)
(declare-fun parent (Pos) Pos)
(declare-fun rootof (Pos) Pos)
(declare-fun nch (Pos) Int)
(declare-fun idx (Pos) Int)
(declare-fun child (Pos Int) Pos)
(declare-fun natt (Pos) Int)
(declare-fun aidx (Pos) Int)
(declare-fun attr (Pos Int) Pos)
(declare-fun pre (Pos) Int)
(declare-fun size (Pos) Int)
(declare-fun depth (Pos) Int)
(declare-fun nav_local (Pos) Str)
(declare-fun nav_prefix (Pos) Str)
(declare-fun nav_value (Pos) Str)
(declare-fun nav_nsurl (Pos) Str)
(declare-fun nodetype_ (Pos) INTSORT)   ; what NodeType() returns at a position (0..4, as a Go int)
(declare-fun ancn (Pos Int) Pos)        ; the n-th ancestor (ancn(p,0) = p), defined by the instance ancnStep
(declare-fun predv (Int Pos) Bool)      ; what the node test stored in query object #1 answers at a position (deterministic)
(declare-fun testv (Int Pos) Bool)      ; what test function #1 (the node test position()/last() count with) answers at a position
(declare-fun cnt (Int Pos Int) Int)     ; cnt(f, p, i): how many of the first i children of p pass test f (instances cntZero, cntStep)
