#!/bin/bash
# usage: tools/seedrun.sh <seed-id> <property>...   — applies seeded/<id>/patch.diff to /repo, runs the
# given checks (quick tier), restores /repo. Prints one line per check.
set -u
cd /verif
id=$1; shift
if ! git -C /repo diff --quiet; then echo "/repo has uncommitted changes; refusing"; exit 2; fi
git -C /repo apply /verif/seeded/$id/patch.diff || { echo "patch does not apply"; exit 2; }
for p in "$@"; do
  out=$(./check $p quick 2>&1); rc=$?
  nv=$(echo "$out" | grep -c '^VIOLATION')
  first=$(echo "$out" | grep '^VIOLATION' | head -3 | sed 's/.*obligation=//' | tr '\n' ';')
  echo "seed=$id check=$p exit=$rc violations=$nv $first"
done
git -C /repo checkout -- .
