#!/usr/bin/env python3
# Rewrites MANIFEST.hooks.source_commits from /repo's history: every commit whose subject starts
# with "verif:" (they touch only the guarded file verif_contracts.go), oldest first.
import json, subprocess
out = subprocess.check_output(["git", "-C", "/repo", "log", "--reverse", "--format=%H %s"], text=True)
commits = [l.split()[0] for l in out.splitlines() if l.split(" ", 1)[1].startswith("verif:")]
for c in commits:
    files = subprocess.check_output(["git", "-C", "/repo", "show", "--name-only", "--format=", c], text=True).split()
    assert files == ["verif_contracts.go"], (c, files)
m = json.load(open("/verif/MANIFEST.json"))
m["hooks"]["source_commits"] = commits
json.dump(m, open("/verif/MANIFEST.json", "w"), indent=1)
print(len(commits), "hook commits")
