#!/bin/bash
# Must-fail corpus: every seeded property-breaking change (seeded/<id>/patch.diff) and the reverse of
# every "fix:" commit of /repo is applied to a scratch worktree of /repo (never to /repo itself) and
# the checks named in seeded/expected.txt are run against it with a scratch copy of /verif's inputs.
# A corpus entry passes when at least one of its expected checks reports a violation.
# usage: tools/mustfail.sh [-j N] [entry ...]      output: one line per entry and check; summary last
set -u
J=8
if [ "${1:-}" = "-j" ]; then J=$2; shift 2; fi
export GOFLAGS=-mod=mod GOPROXY=off GOSUMDB=off GOTOOLCHAIN=local
S=$(mktemp -d /tmp/mustfail.XXXXXX)
trap 'git -C /repo worktree remove --force $S/repo >/dev/null 2>&1; rm -rf $S' EXIT
git -C /repo worktree add -q --detach $S/repo HEAD || exit 2
mkdir -p $S/verif/xvc && cp -r /verif/theory /verif/obligations.lock /verif/known_findings.txt $S/verif/ && cp -r /verif/xvc/bin $S/verif/xvc/
XVC=$S/verif/xvc/bin/xvc
entries="$@"
if [ -z "$entries" ]; then entries=$(awk '!/^#/ && NF {print $1}' /verif/seeded/expected.txt); fi
pass=0; fail=0
for e in $entries; do
  checks=$(awk -v e=$e '$1==e {for(i=2;i<=NF;i++) printf "%s ", $i}' /verif/seeded/expected.txt)
  [ -n "${ONLY_CHECK:-}" ] && checks="$ONLY_CHECK"
  git -C $S/repo checkout -q -- . ; git -C $S/repo clean -fdq
  case $e in
    fix-*) c=${e#fix-}; if ! git -C $S/repo revert --no-commit $c >/dev/null 2>&1; then git -C $S/repo revert --abort >/dev/null 2>&1; git -C $S/repo reset -q --hard HEAD; echo "entry=$e SKIP (reverse patch conflicts with later commits)"; continue; fi;;
    *) if ! git -C $S/repo apply /verif/seeded/$e/patch.diff 2>/dev/null; then echo "entry=$e SKIP (patch does not apply)"; continue; fi;;
  esac
  caught=""
  for p in $checks; do
    out=$($XVC check -repo $S/repo -verif $S/verif -prop $p -j $J 2>&1); rc=$?
    nv=$(echo "$out" | grep -c '^VIOLATION')
    first=$(echo "$out" | grep '^VIOLATION' | grep -v "status=missing" | head -2 | sed 's/.*obligation=//; s/ no-failing-input-found//' | tr '\n' ';')
    [ -z "$first" ] && first=$(echo "$out" | grep '^VIOLATION' | head -1 | sed 's/.*replay=[^ ]* //')
    echo "entry=$e check=$p exit=$rc violations=$nv $first"
    [ $rc -eq 1 ] && caught="$caught $p"
  done
  git -C $S/repo reset -q --hard HEAD
  if [ -n "$caught" ]; then pass=$((pass+1)); echo "entry=$e CAUGHT by$caught"; else fail=$((fail+1)); echo "entry=$e MISSED"; fi
done
echo "must-fail corpus: caught=$pass missed=$fail"
[ $fail -eq 0 ]
