#!/bin/bash
# usage: tools/seedimport.sh <src-dir> <seed-id> <property>
# Imports a sub-agent's seed_out directory as seeded/<seed-id>/ after confirming it on a scratch
# worktree of /repo HEAD (never on /repo): the patch applies, the package builds, the existing suite
# passes with it, the demonstration test fails with it and passes without it.
set -u
export GOFLAGS=-mod=mod GOPROXY=off GOSUMDB=off GOTOOLCHAIN=local
src=$1; id=$2; prop=$3
W=$(mktemp -d /tmp/seedimport.XXXXXX)
trap 'git -C /repo worktree remove --force $W/repo >/dev/null 2>&1; rm -rf $W' EXIT
git -C /repo worktree add -q --detach $W/repo HEAD || exit 2
demo=$(ls $src/zz_*_test.go | head -1)
cd $W/repo
cp $demo . && t=$(basename $demo)
fn=$(grep -o 'func Test[A-Za-z0-9_]*' $t | head -1 | sed 's/func //')
base=$(go test -count=1 -vet=off -run "^$fn\$" . 2>&1 | tail -1)
git apply $src/patch.diff || { echo "patch does not apply"; exit 2; }
go build ./... || { echo "does not build"; exit 2; }
with=$(go test -count=1 -vet=off -run "^$fn\$" . 2>&1 | tail -1)
rm $t
suite=$(go test -count=1 -vet=off . 2>&1 | tail -1)
echo "demo without change: $base"; echo "demo with change:    $with"; echo "suite with change:   $suite"
case "$base" in ok*) ;; *) echo "NOT CONFIRMED (demo fails on the unchanged tree)"; exit 1;; esac
case "$with" in FAIL*) ;; *) echo "NOT CONFIRMED (demo passes with the change)"; exit 1;; esac
case "$suite" in ok*) ;; *) echo "NOT CONFIRMED (suite fails with the change)"; exit 1;; esac
mkdir -p /verif/seeded/$id
cp $src/patch.diff $src/meta.json /verif/seeded/$id/ && cp $demo /verif/seeded/$id/
echo "confirmed; saved as seeded/$id (property $prop)"
